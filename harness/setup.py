import glob, os, sys, subprocess
from concurrent.futures import ThreadPoolExecutor
from . import tlc


def main():
    ok = True
    for tool in (["java", "-version"],):
        try:
            subprocess.run(tool, stdout=subprocess.DEVNULL, stderr=subprocess.DEVNULL, check=True)
        except Exception as e:
            print("missing tool", tool, e); ok = False
    import shutil
    if not shutil.which("apalache-mc"):
        print("note: apalache-mc not found - the Apalache strengthenings of C08/C09 will be skipped with a note")
    for f in (tlc.JAR, tlc.DEPS, "/venv/bin/python"):
        if not os.path.exists(f):
            print("missing", f); ok = False
    mods = sorted(p for d in tlc.SPEC_DIRS + [os.path.join(tlc.SPEC, "apalache")] for p in glob.glob(os.path.join(d, "*.tla")))
    with ThreadPoolExecutor(8) as ex:
        for p, (good, outp) in zip(mods, ex.map(tlc.sany, mods)):
            if not good:
                ok = False
                print("SANY FAILED", p); print(outp[-2000:])
    os.makedirs(os.path.join(tlc.VERIF, "evidence", "replay"), exist_ok=True)
    try:
        from . import drive  # noqa: imports prtpy from the tree under check
    except Exception as e:
        print("cannot import prtpy from /repo:", e); ok = False
    print("setup: %d TLA+ modules parsed, %s" % (len(mods), "OK" if ok else "FAILED"))
    sys.exit(0 if ok else 1)


if __name__ == "__main__":
    main()
