"""Apalache (symbolic model checker) runs of the inductive invariants in spec/apalache: a strengthening of the model-level claims to unbounded
values; never decides a property about the code, and is skipped with a note if Apalache cannot be run."""
import os, shutil, subprocess, tempfile, time
from . import tlc, core

APA = shutil.which("apalache-mc") or "/usr/local/bin/apalache-mc"
DIR = os.path.join(tlc.SPEC, "apalache")


def _run(module, consts, init, inv, length, timeout=240):
    scratch = tempfile.mkdtemp(prefix="prtpy-verif-apa-")
    try:
        shutil.copy(os.path.join(DIR, module + ".tla"), scratch)
        cfg = os.path.join(scratch, module + ".cfg")
        with open(cfg, "w") as f:
            f.write("CONSTANTS %s\nINIT %s\nNEXT Next\nINVARIANT %s\n" % (" ".join("%s = %s" % kv for kv in consts.items()), init, inv))
        t0 = time.time()
        try:
            p = subprocess.run([APA, "check", "--config=" + cfg, "--init=" + init, "--inv=" + inv, "--length=%d" % length, "--out-dir=" + os.path.join(scratch, "out"),
                                module + ".tla"], cwd=scratch, stdout=subprocess.PIPE, stderr=subprocess.STDOUT, text=True, timeout=timeout,
                               env=dict(os.environ, JVM_ARGS="-Xmx4g"))
            out = p.stdout
        except subprocess.TimeoutExpired:
            return "timeout", time.time() - t0
        if "The outcome is: NoError" in out:
            return "ok", time.time() - t0
        if "The outcome is: Error" in out or "violat" in out:
            return "violated", time.time() - t0
        return "failed", time.time() - t0
    finally:
        shutil.rmtree(scratch, ignore_errors=True)


def inductive(ck, module, consts, what, implied=()):
    """Init => IndInv (length 0), IndInv /\\ Next => IndInv' (length 1 from IndInit), and IndInv => each implied predicate"""
    results = []
    for (init, inv, length, label) in [("Init", "IndInv", 0, "base"), ("IndInit", "IndInv", 1, "step")] + [("IndInit", p, 0, "implies:" + p) for p in implied]:
        r, wall = _run(module, consts, init, inv, length)
        results.append((label, r, round(wall, 1)))
    ok = all(r == "ok" for _, r, _ in results)
    ck.mc_runs.append({"what": "Apalache inductive invariant: " + what, "module": "apalache/" + module, "constants": consts, "obligations": results, "discharged": ok})
    ck.cat("apalache_obligations_discharged", sum(1 for _, r, _ in results if r == "ok"))
    if any(r == "violated" for _, r, _ in results):
        path = ck.write_replay({"kind": "model_counterexample", "module": "apalache/" + module, "what": what, "violated": str(results), "trace": ""})
        ck.violations.append(("model:apalache/" + module, {"what": what, "results": results}, path))
    elif not ok:
        ck.note("Apalache could not discharge %s %s: %s (model-level strengthening only; dropped without loss)" % (module, consts, results))
    return ok
