"""C04 - bin-completion uses the minimum possible number of bins."""
from .. import core, scope, gen, models
from .common import *

WITNESS = [{"vals": [19, 14, 4, 14, 24, 17, 20, 15, 20], "C": 50}, {"vals": [5, 10, 4, 10, 8, 6, 4, 10, 5, 4, 4, 10], "C": 20},
           {"vals": [30, 30, 30, 30, 40, 40], "C": 100}, {"vals": [4, 4, 8, 9, 9, 8, 7, 3, 4, 3], "C": 20}]


def run(ck):
    q = ck.quick()
    # L1 (abstract): dominance is safe, the undominated completions lose nothing, the pruned search is safe and optimal (TLC) ...
    models.bc_mc(ck, 6 if q else 7, 6, (6, 7))
    # ... and the real helper functions satisfy the assumptions the model was checked under (covering, dominance relation)
    models.bc_assumptions(ck, q)
    Q = scope.q_scope(ck, 5, 4, [4], minv=1) + scope.q_scope(ck, 5, 6, [6], minv=1) + (scope.q_scope(ck, 6, 5, [5], minv=1) if not q else [])
    ck.exhaustive = True
    groups = []
    for g in Q:
        g = dict(g)
        g["calls"] = [pcall("bc", "list")]
        groups.append(g)
    # the branch logic of the search only matters from about 8 items on: every BAG (the algorithm sorts its input) of <= 8 values
    B = [dict(g, C=12) for g in scope.p_scope(ck, 8 if q else 9, 7, 1, minv=2)] + [dict(g, C=10) for g in scope.p_scope(ck, 8, 6, 1, minv=2)]
    for g in B:
        if len(g["vals"]) >= 6:
            groups.append({"vals": g["vals"], "C": g["C"], "calls": [pcall("bc", "list")]})
    ck.cat("bags_of_6_to_9_items", sum(1 for g in B if len(g["vals"]) >= 6))
    # candidates are cheap; the oracle budget goes to the instances on which best-fit-decreasing misses the lower bound (textbook re-implementation, not the
    # library's), i.e. where the search of bin completion actually runs
    from ..textbook import bfd_count, lb_count
    cand = gen.pack_families(ck.rng, 4200 if q else 16000, maxn=11 if q else 12, minv=1)
    for g in cand:
        g["vals"] = [max(1, v) for v in g["vals"]][:12]
    hard = [g for g in cand if bfd_count(g["vals"], g["C"]) > lb_count(g["vals"], g["C"])]
    easy = [g for g in cand if not bfd_count(g["vals"], g["C"]) > lb_count(g["vals"], g["C"])]
    fam = hard[:450 if q else 1500] + easy[:100 if q else 300]
    ck.cat("family_instances_where_the_search_runs", len(hard[:450 if q else 1500]))
    for g in fam + WITNESS:
        g = dict(g)
        g["vals"] = [max(1, v) for v in g["vals"]][:12]
        g["calls"] = [pcall("bc", "list")]
        groups.append(g)
    ck.rule = ("TLC enumerates every arrival sequence of <=5 values in 1..C for C in {4,6}; bin-completion executed on each with output types "
               "PartitionAndSumsTuple, BinCount and Sums; every bag of <=8 values in 2..7 (C=12) and 2..6 (C=10), where the search's branching first matters; plus seeded families of 6-12 items (uniform, small, triplet, half-size, exact fills, C/6..C/2; selected for) on which "
               "best-fit-decreasing often misses the lower bound so the search runs; minimum number of bins recomputed in TLA+ (Oracles.MinBins, subset DP). "
               "non-trivial = distinct (sequence, C) with >=2 items")
    r = ck.mc("OracleX", "CONSTANTS MaxN = 5 MaxV = 4 MaxK = 1 Cs = {4, 6}\nINIT Init\nNEXT Next\nINVARIANT MinBinsAgrees\n",
              "oracle cross-validation MinBins vs canonical-subset recursion")
    if r.violated:
        raise core.Machinery("oracle cross-validation failed: MinBins")
    traces = run_pack_groups(ck, groups, {"C04"}, "C04 minimum number of bins", chunk=600)
    # beyond the oracle: planted perfect packings of 10-14 items (TLC checks the certificate: OPT = number of planted bins)
    big = gen.planted_small_packings(ck.rng, 25000 if q else 100000)
    # ... and of 16-20 items (5-6 planted bins): an implementation may treat "large" inputs differently (a reduction, a cap on the search)
    big16 = gen.planted_small_packings(ck.rng, 6000 if q else 40000, bins=(5, 5, 6), minitems=16, maxitems=20)
    ck.cat("planted_perfect_packings_16_to_20_items", len(big16))
    big += big16
    for g in big:
        g["calls"] = [pcall("bc", "list")]; g["orc"] = 0
    from .. import drive as _drive
    tb = core.pmap(_drive.run_pack_group, big)
    for t in tb:
        ck.evaluations += len(t["res"]); ck.nontrivial.add(key_pack(t))
        t["res"] = [r for r in t["res"] if r["out"] != "timeout"]
    ck.cat("planted_perfect_packings_10_to_14_items", len(tb))
    fb = ck.judge("JCertPack", tb, {"C04"}, what="C04 on planted perfect packings of 10-14 and 16-20 items (certified optimum)", chunk=6000)
    ck.classify(fb, lambda fl: {"alg": "bc", "vals": fl["trace"]["vals"], "C": fl["trace"]["C"], "planted_bins": len(fl["trace"]["cert"]),
                                "lists": fl["trace"]["res"][fl["e"] - 1]["lists"] if fl["e"] else None})
    for t in traces:
        if bfd_count(t["vals"], t["C"]) > lb_count(t["vals"], t["C"]):
            ck.cat("search_ran_beyond_bfd")
    ck.assumptions += ["TLC / SANY / CommunityModules; Oracles.MinBins cross-validated against an independent recursion in this run", "totals < 2^31"]


if __name__ == "__main__":
    import sys
    core.run_check(run, "C04", sys.argv[1:])
