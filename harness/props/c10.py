"""C10 - bin-covering heuristics meet their approximation guarantees."""
from .. import core, scope, gen, drive
from .common import *


def fam_dec(k):
    # worst case of the decreasing heuristic quoted in its doctests, generalised in k: C=1000, [1000-6k] + 6k x [499] + 6k x [1]; OPT = 3k+1... witness below
    big, n = 1000 - 6 * k, 6 * k
    vals = [big] + [499] * n + [1] * n
    # witness cover: {big + 6k ones} and 3k bins {499,499,1,1}? ones are used up: use {big, 6k x 1} + pairs need 2 more -> bins of three 499s
    ids = list(range(1, len(vals) + 1))
    wit = [[1] + ids[1 + n:]]
    rest = ids[1:1 + n]
    while len(rest) >= 3:
        wit.append(rest[:3]); rest = rest[3:]
    return {"vals": vals, "C": 1000, "cert": [], "wit": wit, "opt": len(wit)}


def fam_tq(k):
    # worst case for three-quarters quoted in its doctests: C=1200, 2k x [594] + 12k x [399] + 12k x [1]
    vals = [594] * (2 * k) + [399] * (12 * k) + [1] * (12 * k)
    ids = list(range(1, len(vals) + 1))
    b594, b399, ones = ids[:2 * k], ids[2 * k:14 * k], ids[14 * k:]
    wit = []
    # {594, 399, 399} needs 1392 >= 1200 ok; remaining 399s in groups of 4 (1596)
    for i, x in enumerate(b594):
        wit.append([x, b399[2 * i], b399[2 * i + 1]])
    rest = b399[4 * k:]
    while len(rest) >= 4:
        wit.append(rest[:4]); rest = rest[4:]
    return {"vals": vals, "C": 1200, "cert": [], "wit": wit, "opt": len(wit)}


def run(ck):
    q = ck.quick()
    Q = scope.q_scope(ck, 5, 6, [4], minv=1) + scope.q_scope(ck, 4 if q else 6, 8, [6], minv=1) + scope.q_scope(ck, 4 if q else 5, 7, [12], minv=1) + scope.q_scope(ck, 4 if q else 5, 7, [5, 7], minv=1)
    ck.exhaustive = True
    groups = []
    for g in Q:
        g = dict(g)
        g["calls"] = [pcall(a, "list", extra=False) for a in COVERS]
        groups.append(g)
    fam = gen.cover_families(ck.rng, 300 if q else 15000, maxn=12) + gen.near_miss_families(ck.rng, 60 if q else 600, giga=True)
    for g in fam:
        g = dict(g)
        g["calls"] = [pcall(a, "list", extra=False) for a in COVERS]
        groups.append(g)
    for g in gen.gscale_families(ck.rng, 100 if q else 3000, cover=True):
        g = dict(g); g.pop("fmts")
        g["calls"] = [pcall(a, "list", extra=False) for a in COVERS]
        groups.append(g); ck.cat("common_factor_1e8")
    ck.rule = ("TLC enumerates every arrival sequence of <=5 positive values (up to C+2) for C in {4,5,6,7,12}; decreasing, two-thirds and three-quarters executed "
               "on each; the number of covered bins judged against Oracles.MaxCover (subset DP in TLA+); seeded families <=12 items; the published worst-case "
               "families generalised in k (witness cover checked by TLC); planted exact covers up to 300 items (TLC-certified OPT = total/C). "
               "non-trivial = distinct (sequence, C) with >=2 items")
    r = ck.mc("OracleX", "CONSTANTS MaxN = 5 MaxV = 7 MaxK = 1 Cs = {4, 6}\nINIT Init\nNEXT Next\nINVARIANT MaxCoverAgrees\n",
              "oracle cross-validation MaxCover vs canonical-subset recursion")
    if r.violated:
        raise core.Machinery("oracle cross-validation failed: MaxCover")
    run_pack_groups(ck, groups, {"C10"}, "C10 covering guarantees", chunk=6000)
    big = gen.planted_covers(ck.rng, 40 if q else 2500, maxitems=80 if q else 300)
    big += gen.exact_fill_covers()
    for g in big:
        g["wit"] = []; g["opt"] = 0
    big += [fam_dec(k) for k in ((1, 2) if q else (1, 2, 3, 5, 8))] + [fam_tq(k) for k in ((1, 2) if q else (1, 2, 3, 5, 8))]
    for g in big:
        g["calls"] = [pcall(a, "list", extra=False) for a in COVERS]
        g["orc"] = 0
    tb = core.pmap(drive.run_pack_group, big)
    for t in tb:
        ck.evaluations += len(t["res"]); ck.nontrivial.add(key_pack(t))
    ck.cat("planted_or_family_large", len(tb))
    fails = ck.judge("JCertPack", tb, {"C10"}, what="C10 on planted / worst-case families (certified optimum)", chunk=300)
    ck.classify(fails, ctx_pack)
    ck.assumptions += ["TLC / SANY / CommunityModules; Oracles.MaxCover cross-validated against an independent recursion in this run", "totals < 2^31",
                       "for the published families the stated OPT is a lower bound witnessed by a cover that TLC checks (enough for the >= guarantees); "
                       "the <= OPT clause there uses floor(total/C)"]


if __name__ == "__main__":
    import sys
    core.run_check(run, "C10", sys.argv[1:])
