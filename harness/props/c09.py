"""C09 - fit heuristics keep the any-fit invariant and their bin-count bounds."""
from .. import core, scope, gen, models, apalache
from .common import *


def ff17_family(m):
    # a classical bad family for first-fit (ratio approaching 5/3 for small instances): 6m items 1/7+e, 6m items 1/3+e, 6m items 1/2+e; C = 84*... use C=1000
    return {"vals": [150] * (6 * m) + [340] * (6 * m) + [510] * (6 * m), "C": 1000}


def ffd_family(m):
    # FFD 11/9 family (Johnson): C=1000*? use the standard one with C = 1000: 6m x 501? we use the integer form with C=100: 51,27,26,23 pattern
    return {"vals": [51] * (6 * m) + [27] * (6 * m) + [26] * (6 * m) + [23] * (12 * m), "C": 100}


def run(ck):
    q = ck.quick()
    models.heur_mc(ck, ["ff", "bf", "ffd", "bfd"], ["FitStepInv"], maxn=4 if q else 5, cs=(4, 5, 6))
    # unbounded values and capacities (Apalache, symbolic): the any-fit invariant is inductive for first-fit and best-fit over up to K bins
    for K in ((3,) if q else (2, 3, 4)):
        for rule, name in ((1, "first-fit"), (2, "best-fit")):
            apalache.inductive(ck, "AnyFitInd", {"K": K, "Rule": rule}, "%s: any-fit invariant and feasibility, any values and capacity, up to %d bins" % (name, K))
    Q = scope.q_scope(ck, 5, 4, [4]) + scope.q_scope(ck, 5 if not q else 4, 6, [6]) + scope.q_scope(ck, 4 if q else 5, 12, [12], minv=1)
    Q = [g for g in Q if max(g["vals"]) <= g["C"]]
    ck.exhaustive = True
    groups = []
    for g in Q:
        g = dict(g)
        g["calls"] = [pcall(a, "list", extra=False) for a in FIT4]
        groups.append(g)
    for g in scope.q_scope(ck, 7 if q else 8, 2, [3, 4]):      # "coarse": longer arrival sequences over the values 0..2
        if len(g["vals"]) >= 6:
            g = dict(g); g["calls"] = [pcall(a, "list", extra=False) for a in FIT4]; groups.append(g)
    for g in scope.q_scope(ck, 4, 8, [8, 12]):
        if max(g["vals"]) <= g["C"]:
            g = dict(g); g["den"] = 8
            g["calls"] = [pcall(a, "list", extra=False) for a in FIT4]
            groups.append(g); ck.cat("dyadic")
    fam = gen.pack_families(ck.rng, 300 if q else 15000, maxn=12)
    for g in fam + gen.near_miss_families(ck.rng, 60 if q else 600, cover=False):
        g = dict(g)
        g["vals"] = g["vals"][:12]
        g["calls"] = [pcall(a, "list", extra=False) for a in FIT4]
        groups.append(g)
    for g in gen.gscale_families(ck.rng, 100 if q else 3000, cover=False):
        g = dict(g); g.pop("fmts")
        g["calls"] = [pcall(a, "list", extra=False) for a in FIT4]
        groups.append(g); ck.cat("common_factor_1e8")
    ck.rule = ("TLC enumerates every arrival ORDER (sequence) of <=5 values in 0..C for C in {4,6,12} and dyadic eighths; ff, ffd, bf, bfd executed on each; "
               "any-fit invariant judged on the Partition output, bin-count bounds against Oracles.MinBins; seeded families of 6-12 items; planted perfect "
               "packings up to 300 items in random order with TLC-certified optimum; classical bad families. non-trivial = distinct (sequence, C) with >=2 items")
    run_pack_groups(ck, groups, {"C09"}, "C09 any-fit invariant and bounds", chunk=6000)
    # large instances: planted perfect packings (certificate => OPT = total / C), judged by JCertPack
    big = gen.planted_packings(ck.rng, 40 if q else 2500, maxitems=80 if q else 300)
    big += [dict(ff17_family(m), cert=[]) for m in (1, 2)] + [dict(ffd_family(m), cert=[]) for m in (1, 2)]
    big += [dict(g, cert=[]) for g in gen.long_families(ck.rng, 60 if q else 3000)]     # 65-260 items: code paths chosen by input size
    for g in big:
        g["calls"] = [pcall(a, "list", extra=False) for a in FIT4]
        g["orc"] = 0
    from .. import core as _c, drive
    tb = core.pmap(drive.run_pack_group, big)
    for t in tb:
        ck.evaluations += len(t["res"]); ck.nontrivial.add(key_pack(t))
    ck.cat("planted_large", len(tb))
    fails = ck.judge("JCertPack", tb, {"C09"}, what="C09 on planted large instances (certified optimum)", chunk=300)
    ck.classify(fails, ctx_pack)
    ck.assumptions += ["TLC / SANY / CommunityModules; Oracles.MinBins (cross-validated in C04's run)", "totals < 2^31",
                       "on planted instances OPT is certified: TLC checks the planted packing is feasible and every bin exactly full, hence OPT = total/C; "
                       "for the classical families (empty certificate) only the invariant and the arithmetic lower bound ceil(total/C) <= OPT are used"]


if __name__ == "__main__":
    import sys
    core.run_check(run, "C09", sys.argv[1:])
