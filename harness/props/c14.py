"""C14 - simple heuristics compute exactly what their textbook definitions prescribe."""
from .. import core, scope, gen, drive, models
from .common import *


def ctx_part(fl):
    t = fl["trace"]
    r = t["res"][fl["e"] - 1]
    return {"alg": r["alg"], "k": t["k"], "vals": t["vals"], "fmt": r["fmt"], "out": r["out"], "lists": r["lists"]}


def run(ck):
    q = ck.quick()
    # the L1 textbook machines are model-checked against the contract first (spec-level claim)
    ck.mc("MCTextbook", "CONSTANTS MaxN = 4 MaxV = 4 MaxK = 3 Cs = {4, 6}\nINIT Init\nNEXT Next\nINVARIANT GreedyOK\nINVARIANT RoundRobinOK\nINVARIANT FitOK\nINVARIANT CoverOK\nINVARIANT TieFreedomIrrelevant\n",
          "MC textbook machines satisfy the contract; every tie resolution gives the same bag of sums")
    # partition side: order of arrival matters for ties -> sequences, not bags
    P = scope.q_scope(ck, 5 if q else 6, 3, [2, 3]) + scope.q_scope(ck, 4, 5, [4])     # here "C" plays the role of k
    ck.exhaustive = True
    groups = [{"vals": g["vals"], "k": g["C"], "calls": [call("greedy", "iddict"), call("roundrobin", "iddict"), call("greedy", "list"), call("roundrobin", "list")]} for g in P]
    for g in scope.p_scope(ck, 11 if q else 13, 2, 4):
        if len(g["vals"]) >= 7 and g["k"] >= 2:
            groups.append({"vals": g["vals"], "k": g["k"], "calls": [call("greedy", "iddict"), call("roundrobin", "iddict")]})
    fam = gen.part_families(ck.rng, 200 if q else 15000, maxn=12, maxv=30, maxk=5)
    for g in fam:
        g["calls"] = [call("greedy", "iddict"), call("roundrobin", "iddict")]
        groups.append(g)
    traces = core.pmap(drive.run_part_group, groups)
    for t in traces:
        ck.evaluations += len(t["res"])
        if nontrivial_part(t):
            ck.nontrivial.add(key_part(t))
    ck.sample({"vals": traces[len(traces) // 2]["vals"], "k": traces[len(traces) // 2]["k"], "first_events": traces[len(traces) // 2]["res"][:1]})
    fails = ck.judge("JPart", traces, {"C14"}, what="C14 greedy / round-robin vs textbook rule", chunk=8000)
    ck.classify(fails, ctx_part)
    # packing / covering side; C in {6,12} puts items exactly on the class thresholds C/2 and C/3
    groups = []
    for g in scope.q_scope(ck, 5, 6, [6]) + scope.q_scope(ck, 4, 4, [4]) + scope.q_scope(ck, 4, 5, [5]):
        if max(g["vals"]) <= g["C"]:
            g = dict(g); g["orc"] = 0
            g["calls"] = [pcall(a, "iddict", extra=False) for a in FIT4]
            groups.append(g)
    for g in scope.q_scope(ck, 5, 8, [6], minv=1) + scope.q_scope(ck, 4 if q else 5, 7, [12], minv=1) + scope.q_scope(ck, 4, 6, [4], minv=1) + scope.q_scope(ck, 4 if q else 5, 7, [5, 7, 9], minv=1):
        g = dict(g); g["orc"] = 0
        g["calls"] = [pcall(a, "iddict", extra=False) for a in COVERS]
        groups.append(g)
    # "coarse" universes: longer sequences over very few values
    for g in scope.q_scope(ck, 7 if q else 8, 2, [3, 4]):
        if len(g["vals"]) >= 6:
            g = dict(g); g["orc"] = 0; g["calls"] = [pcall(a, "iddict", extra=False) for a in FIT4]; groups.append(g)
    for g in scope.q_scope(ck, 7 if q else 8, 3, [4, 6], minv=1):
        if len(g["vals"]) >= 6:
            g = dict(g); g["orc"] = 0; g["calls"] = [pcall(a, "iddict", extra=False) for a in COVERS]; groups.append(g)
    for g in gen.pack_families(ck.rng, 200 if q else 15000, maxn=14):
        g = dict(g); g["orc"] = 0
        g["calls"] = [pcall(a, "iddict", extra=False) for a in FIT4]
        groups.append(g)
    for g in gen.cover_families(ck.rng, 300 if q else 20000, maxn=30) + gen.near_miss_families(ck.rng, 60 if q else 600):
        g = dict(g); g["orc"] = 0
        g["calls"] = [pcall(a, "iddict", extra=False) for a in COVERS]
        groups.append(g)
    for g in gen.gscale_families(ck.rng, 100 if q else 3000, cover=True):       # magnitudes around 2^31: list and dict of values <= 21 times about 1e8
        g = dict(g); g["orc"] = 0; g.pop("fmts")
        g["calls"] = [pcall(a, f, extra=False) for a in COVERS for f in ("iddict", "list")]
        groups.append(g); ck.cat("common_factor_1e8")
    for g in gen.gscale_families(ck.rng, 100 if q else 3000, cover=False):
        g = dict(g); g["orc"] = 0; g.pop("fmts")
        g["calls"] = [pcall(a, f, extra=False) for a in FIT4 for f in ("iddict", "list")]
        groups.append(g); ck.cat("common_factor_1e8")
    for g in gen.long_families(ck.rng, 40 if q else 2000, hi=160):                # 65-160 items: code paths chosen by input size
        g = dict(g); g["orc"] = 0; g["calls"] = [pcall(a, "iddict", extra=False) for a in FIT4]; groups.append(g); ck.cat("long_sequences")
    for g in gen.long_families(ck.rng, 40 if q else 2000, cover=True, hi=160):
        g = dict(g); g["orc"] = 0; g["calls"] = [pcall(a, "iddict", extra=False) for a in COVERS]; groups.append(g); ck.cat("long_sequences")
    # stepwise: the recorded sequence of placements (which item into which bin) of every heuristic against the rule
    st = [{"alg": a, "vals": g["vals"], "k": g["C"]} for g in scope.q_scope(ck, 4 if q else 5, 3, [2, 3]) for a in ("greedy", "roundrobin")]
    st += [{"alg": a, "vals": g["vals"], "C": g["C"]} for g in scope.q_scope(ck, 4 if q else 5, 5, [5, 6]) if max(g["vals"]) <= g["C"] for a in FIT4]
    st += [{"alg": a, "vals": g["vals"], "C": g["C"]} for g in scope.q_scope(ck, 4 if q else 5, 7, [6, 7], minv=1) for a in COVERS]
    models.placement_traces(ck, st)
    ck.rule = ("TLC enumerates every arrival sequence (ties between equal values in every order, items exactly filling a bin, items equal to binsize/2 and "
               "binsize/3 with C in {6,12}; odd sizes 5,7,9 where the thresholds fall between integers) of <=5 values; each heuristic's result is compared by TLC with the Textbook.tla transcription of its documented rule: "
               "bag of sums for all nine, bins as bags of values for round-robin, ff, ffd and the three covers. Items are presented under names (dict keyed by "
               "id) so that bins are compared item for item by value. non-trivial = distinct input with >=2 items")
    run_pack_groups(ck, groups, {"C14"}, "C14 fit / cover heuristics vs textbook rule", chunk=8000)
    ck.assumptions += ["TLC / SANY / CommunityModules", "Textbook.tla is the reference transcription of the documented rules (model-checked against the contract in this run)"]


if __name__ == "__main__":
    import sys
    core.run_check(run, "C14", sys.argv[1:])
