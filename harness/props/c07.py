"""C07 - the answer does not depend on how the items are presented."""
from .. import core, scope, gen, drive
from .common import *

FMTS = ("list", "array", "narrowarray", "dict", "valueof", "falsydict", "emptystr")
# presentations of the common-factor family (values around 1e9: each fits a signed 32-bit integer, sums of two and the bin size do not)
FMTS_G = ("list", "int32array", "uint32array", "int64array", "iddict", "npscalars")
# seeded families (values large enough for narrow integer types to matter) also present the numbers as numpy SCALARS inside a plain list / a dict
FMTS_FAM = FMTS + ("npscalars", "npscalardict")


def part_calls(g, rng, q, fmts=FMTS):
    n, k = len(g["vals"]), g["k"]
    base = [call(a) for a in ("greedy", "roundrobin", "kk", "ckk", "snp", "rnp")] + [call("multifit", it=10), call("multifit", it=2)]
    base += [call("cg", o=o, sw=sw) for o, sw in (("diff", "1101"), ("maxsum", "1111"), ("minsum", "0101"))]
    base += [call("dp", o=o, kp=kp) for o, kp in (("diff", 0), ("maxsum", 0), ("ksmallest", 2))]
    if k == 2:
        base += [call("cbldm", d=n, d_default=True), call("cbldm", d=1)]
    if g.get("ilp"):
        base += [call("ilp", o="minsum")]
    cs = []
    for c in base:
        if feasible(c["alg"], n, k):
            for f in fmts:
                c2 = dict(c); c2["fmt"] = f; cs.append(c2)
    return cs


def ctx_part(fl):
    t = fl["trace"]
    r = t["res"][fl["e"] - 1]
    return {"alg": r["alg"], "k": t["k"], "vals": t["vals"], "fmt": r["fmt"], "cfg": r["cfg"], "out": r["out"], "sums": r["sums"], "lists": r["lists"]}


def run(ck):
    q = ck.quick()
    P = scope.p_scope(ck, 5 if q else 6, 4, 4)
    ck.exhaustive = True
    groups = []
    for i, g in enumerate(P):
        g = dict(g); g["ilp"] = (i % (40 if q else 10) == 0)
        g["calls"] = part_calls(g, ck.rng, q); groups.append(g)
    for i, g in enumerate(gen.part_families(ck.rng, 150 if q else 3000, maxn=9, maxv=60, maxk=4)):
        g["ilp"] = (i % 30 == 0)
        g["calls"] = part_calls(g, ck.rng, q, FMTS_FAM); g["watchdog"] = 10; groups.append(g)
    groups += [dict(g, calls=[dict(c, fmt=f) for c in g["calls"] for f in FMTS]) for g in witness_groups(ck)]
    for i in range(60 if q else 1500):      # common-factor family: 3-8 values <= 21, presented multiplied by 1e8 as 32/64-bit arrays, list, dict
        g = {"vals": [ck.rng.randint(1, 21) for _ in range(ck.rng.randint(3, 8))], "k": ck.rng.choice([2, 3, 3, 4]), "mul": 10 ** 8}
        g["calls"] = [dict(c, fmt=f) for c in part_calls(g, ck.rng, q) if c["fmt"] == "list" for f in FMTS_G]
        g["watchdog"] = 10; groups.append(g); ck.cat("common_factor_1e8")
    traces = core.pmap(drive.run_part_group, groups)
    for t in traces:
        ck.evaluations += len(t["res"])
        t["res"] = [r for r in t["res"] if r["out"] != "timeout"] if not any(r["out"] == "timeout" for r in t["res"]) else []
        if t["res"] and nontrivial_part(t):
            ck.nontrivial.add(key_part(t))
    traces = [t for t in traces if t["res"]]
    ck.sample({"vals": traces[len(traces) // 2]["vals"], "k": traces[len(traces) // 2]["k"], "first_events": traces[len(traces) // 2]["res"][:4]})
    fails = ck.judge("JPart", traces, {"C07"}, what="C07 partitioners across presentations", chunk=3000)
    ck.classify(fails, ctx_part)
    # packing / covering
    groups = []
    for g in scope.q_scope(ck, 4 if q else 5, 6, [6]) + scope.q_scope(ck, 4, 4, [4]):
        if max(g["vals"]) <= g["C"]:
            g = dict(g); g["orc"] = 0
            g["calls"] = [pcall(a, f, extra=False) for a in PACKERS for f in FMTS]
            groups.append(g)
    for g in scope.q_scope(ck, 4 if q else 5, 8, [6], minv=1) + scope.q_scope(ck, 4, 7, [12], minv=1) + scope.q_scope(ck, 3 if q else 4, 7, [5, 7], minv=1):
        g = dict(g); g["orc"] = 0
        g["calls"] = [pcall(a, f, extra=False) for a in COVERS for f in FMTS]
        groups.append(g)
    for g in gen.pack_families(ck.rng, 200 if q else 4000, maxn=12):
        g = dict(g); g["orc"] = 0
        g["calls"] = [pcall(a, f, extra=False) for a in PACKERS for f in FMTS_FAM]
        groups.append(g)
    for g in gen.cover_families(ck.rng, 200 if q else 4000, maxn=25):
        g = dict(g); g["orc"] = 0
        g["calls"] = [pcall(a, f, extra=False) for a in COVERS for f in FMTS_FAM]
        groups.append(g)
    for g in gen.gscale_families(ck.rng, 150 if q else 4000, cover=False):
        g = dict(g); g["orc"] = 0; g.pop("fmts")
        g["calls"] = [pcall(a, f, extra=False) for a in PACKERS for f in FMTS_G]
        groups.append(g); ck.cat("common_factor_1e8")
    for g in gen.gscale_families(ck.rng, 150 if q else 4000, cover=True):
        g = dict(g); g["orc"] = 0; g.pop("fmts")
        g["calls"] = [pcall(a, f, extra=False) for a in COVERS for f in FMTS_G]
        groups.append(g); ck.cat("common_factor_1e8")
    ck.rule = ("every algorithm is called on every input of a TLC-enumerated universe (bags n<=5, v<=4, k<=4; sequences for packing/covering) in seven presentations: "
               "plain list, numpy array, narrow-dtype numpy array, dict with string names, list of integer names + value function (names unrelated to values), dicts whose largest item is named 0 / the empty string (falsy names), and - on the seeded families - a plain list / a dict whose numbers are numpy scalars of a narrow integer type; TLC compares the bags of sums "
               "and checks the named results over the names; plus seeded families; plus a common-factor family (values <= 21 presented multiplied by about 1e8 as int32 / uint32 / int64 arrays, list and dict: every value fits 32 bits, "
               "sums and bin sizes do not; dividing the answers by the factor is exact, so TLC judges the small numbers). non-trivial = distinct input with >=2 items")
    run_pack_groups(ck, groups, {"C07"}, "C07 packers / covers across presentations", chunk=6000)
    ck.assumptions += ["TLC / SANY / CommunityModules", "the harness's name<->id bijection (DESIGN 4.3)"]


if __name__ == "__main__":
    import sys
    core.run_check(run, "C07", sys.argv[1:])
