"""C20 - built-in objectives compute their documented quantity on every sum vector."""
import itertools
from .. import core, drive
from .common import *


def run(ck):
    q = ck.quick()
    maxn, maxs = (4, 6) if q else (5, 7)
    r = ck.mc("ObjGen", "CONSTANTS MaxN = %d MaxS = %d\nINIT Init\nNEXT Next\nINVARIANT FastPathAgrees\nINVARIANT SignsRight\n" % (maxn, maxs),
              "GEN sum sequences + MC documented fast path = slow path on sorted vectors")
    ck.exhaustive = True
    stim = sorted(r.emitted, key=lambda e: (len(e["s"]), e["s"]))
    expected = {}
    for e in stim:
        n = len(e["s"])
        ws = list(itertools.product([1, 2, 3, 4], repeat=n))
        if len(ws) > 16:
            ws = ck.rng.sample(ws, 6) + [tuple([1] * n), tuple(range(1, n + 1))[:n] if n <= 4 else tuple([1, 2, 3, 4, 1][:n])]
        e["wlist"] = [list(w) for w in ws]
    # larger random vectors
    for i in range(200 if q else 20000):
        n = ck.rng.randint(1, 9)
        s = [ck.rng.randint(0, 10 ** ck.rng.randint(1, 6)) for _ in range(n)]
        if i % 3 == 0:
            s.sort()
        stim.append({"s": s, "wlist": [[ck.rng.randint(1, 9) for _ in range(n)] for _ in range(3)]})
    traces = core.pmap(drive.run_obj, [{"s": e["s"], "wlist": e["wlist"]} for e in stim])
    # DRIFT-level binding of GEN: the model's own expected values travel with the stimulus and must equal what the judge computes (same operator) -
    # used here only to count how many (objective, k) pairs the model emitted
    for e in stim:
        if "exp" in e:
            ck.cat("model_values_emitted", sum(len(v) for v in e["exp"].values()))
    for t in traces:
        ck.evaluations += len(t["res"])
        if len(t["s"]) >= 2 and len(set(t["s"])) >= 2:
            ck.nontrivial.add(tuple(t["s"]))
    ck.sample({"s": traces[len(traces) // 2]["s"], "first_events": traces[len(traces) // 2]["res"][:3]})
    ck.sample({"s": traces[-1]["s"], "last_events": traces[-1]["res"][-2:]})
    ck.rule = ("TLC enumerates every sequence (all orders) of <=%d sums in 0..%d; the real value_to_minimize of the six built-in objectives is evaluated on each as list, tuple, "
               "int ndarray and float ndarray, for every k in 1..n+2, weight vectors from {1,2,3,4}^n (all for n<=2, sampled beyond), slow path and - on sorted vectors - "
               "the declared-sorted fast path; TLC compares each value (exact rationals for the weighted objective) with ObjectivesDoc.tla; plus random vectors up to 9 sums "
               "of up to 10^6. non-trivial = distinct vector with >=2 entries not all equal") % (maxn, maxs)
    fails = ck.judge("JObj", traces, {"C20"}, what="C20 objective values", chunk=1500)
    ck.classify(fails, lambda fl: {"alg": fl["trace"]["res"][fl["e"] - 1]["o"], "s": fl["trace"]["s"], "ev": fl["trace"]["res"][fl["e"] - 1]})
    from .. import magnitude
    magnitude.run(ck, {"C20"}, 40 if q else 800, objs=True)
    ck.assumptions += ["TLC / SANY / CommunityModules", "ObjectivesDoc.tla is the reading of the documented definitions",
                       "a float result of the weighted objective is mapped to the unique fraction with denominator <= max weight that rounds to it"]


if __name__ == "__main__":
    import sys
    core.run_check(run, "C20", sys.argv[1:])
