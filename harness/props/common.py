"""Stimulus construction shared by several property checks (which calls are made on each input)."""
import itertools

SWITCHES = ["".join(p) for p in itertools.product("01", repeat=4)]   # lb, flb, h3, seen
OBJ3 = ["diff", "maxsum", "minsum"]
OBJ5 = OBJ3 + ["klargest", "ksmallest"]


def sw_dict(s):
    return {"lb": s[0] == "1", "flb": s[1] == "1", "h3": s[2] == "1", "seen": s[3] == "1"}


def call(alg, fmt="dict", o="diff", kp=0, sw="", d=0, it=-1, **kw):
    c = {"alg": alg, "fmt": fmt, "o": o, "kp": kp, "swc": sw, "d": d, "it": it,
         "cfg": "%s%s%s" % (o if alg in ("cg", "dp", "ilp") else "", (":kp=%d" % kp) if kp else "", (":sw=" + sw) if sw else "")}
    if sw:
        c["sw"] = sw_dict(sw)
    c.update(kw)
    return c


def cg_calls(fmt="dict", switches=SWITCHES, objs=OBJ3):
    return [call("cg", fmt, o=o, sw=s) for o in objs for s in switches]


def nontrivial_part(g):
    return len(g["vals"]) >= 2 and g["k"] >= 2


def key_part(g):
    return ("P", tuple(g["vals"]), g["k"])


def feasible(alg, n, k):
    """per-algorithm size caps outside the exhaustive scopes: the exact searches blow up exponentially (DESIGN 6);
    a call that is skipped here is simply not explored (counted by the caller)."""
    if alg == "dp":
        return k ** n <= 20000
    if alg == "ckk":
        return k <= 3 or (k == 4 and n <= 9) or (k == 5 and n <= 7)
    if alg == "snp":
        return k <= 4 or (k == 5 and n <= 8)
    if alg == "rnp":
        return k <= 5 or n <= 8
    if alg == "cg":
        return k ** n <= 5000000
    if alg == "ilp":
        return n <= 8 and k <= 4
    return True


def witness_groups(ck, kind="part"):
    """every known finding's witness is re-executed on every run (DESIGN 8)"""
    gs = []
    for kf in ck.known:
        w = kf.get("witness")
        if kf.get("status") == "known" and w and w.get("kind") == kind:
            g = {x: w[x] for x in w if x not in ("kind", "call")}
            g["calls"] = [call(**w["call"])]
            gs.append(g)
    return gs


# ------------------------------------------------------------------ packing / covering
PACKERS = ["ff", "ffd", "bf", "bfd", "bc"]
FIT4 = ["ff", "ffd", "bf", "bfd"]
COVERS = ["dec", "tt", "tq"]


def pcall(alg, fmt="dict", extra=True):
    return {"alg": alg, "fmt": fmt, "extra": extra}


def key_pack(t):
    return ("Q", tuple(t["vals"]), t["C"], t.get("den", 1))


def ctx_pack(fl):
    t = fl["trace"]
    r = t["res"][fl["e"] - 1]
    return {"alg": r["alg"], "C": t["C"], "den": t.get("den", 1), "vals": t["vals"], "fmt": r["fmt"], "out": r["out"], "lists": r.get("lists"),
            "sums": r.get("sums"), "bc": r.get("bc"), "bcout": r.get("bcout"), "soout": r.get("soout")}


def run_pack_groups(ck, groups, active, what, chunk=6000, nontrivial=lambda t: len(t["vals"]) >= 2):
    from .. import core, drive
    traces = core.pmap(drive.run_pack_group, groups)
    for t in traces:
        ck.evaluations += len(t["res"])
        for r in t["res"]:
            ck.cat("alg:" + r["alg"])
            if r["out"] == "timeout":
                ck.timeouts += 1
        t["res"] = [r for r in t["res"] if r["out"] != "timeout"]
        if nontrivial(t):
            ck.nontrivial.add(key_pack(t))
    traces = [t for t in traces if t["res"]]
    if traces:
        m = traces[len(traces) // 2]
        ck.sample({"vals": m["vals"], "C": m["C"], "den": m["den"], "first_events": m["res"][:2]})
        ck.sample({"vals": traces[-1]["vals"], "C": traces[-1]["C"], "den": traces[-1]["den"], "first_events": traces[-1]["res"][:1]})
    fails = ck.judge("JPack", traces, active, what=what, chunk=chunk)
    ck.classify(fails, ctx_pack)
    return traces
