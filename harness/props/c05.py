"""C05 - bin-covering results are valid covers that waste less than one bin."""
from .. import core, scope, gen, models
from .common import *


def run(ck):
    q = ck.quick()
    models.heur_mc(ck, ["dec", "tt", "tq"], ["CovStepInv", "FinalOK"], maxn=4 if q else 5, maxv=8, minv=1)
    Q = scope.q_scope(ck, 5, 6, [4], minv=1) + scope.q_scope(ck, 4 if q else 6, 8, [6], minv=1) + scope.q_scope(ck, 4 if q else 5, 7, [5, 7], minv=1)
    ck.exhaustive = True
    groups = []
    for g in Q:
        g = dict(g); g["orc"] = 0
        g["calls"] = [pcall(a, f, extra=False) for a in COVERS for f in ("list", "dict", "falsydict", "emptystr")]
        groups.append(g)
    fam = gen.cover_families(ck.rng, 400 if q else 30000, maxn=40) + gen.near_miss_families(ck.rng, 60 if q else 600, giga=True)
    for g in fam:
        g = dict(g); g["orc"] = 0
        g["calls"] = [pcall(a, f, extra=False) for a in COVERS for f in ("list", "dict", "falsydict")]
        groups.append(g)
    for g in gen.long_families(ck.rng, 40 if q else 2000, cover=True):           # 65-260 items: code paths chosen by input size
        g = dict(g); g["orc"] = 0; g["calls"] = [pcall(a, "list", extra=False) for a in COVERS]; groups.append(g); ck.cat("long_sequences")
    for g in gen.gscale_families(ck.rng, 100 if q else 3000, cover=True):       # magnitudes around 2^31 (values <= 21 times a common factor of about 1e8)
        g = dict(g); g["orc"] = 0; g.pop("fmts")
        g["calls"] = [pcall(a, f, extra=False) for a in COVERS for f in ("list", "dict")]
        groups.append(g); ck.cat("common_factor_1e8")
    ck.rule = ("TLC enumerates every arrival sequence of <=5 positive values up to C+2 for C in {4,5,6,7} (items larger than a bin, inputs that cover "
               "nothing, repeats included); decreasing, two-thirds and three-quarters executed on each as a plain list, as a dict with string names and as dicts whose largest item is named 0 / the empty string (dict(enumerate(values)) is an everyday input); plus seeded families "
               "up to 40 items around the class thresholds. non-trivial = distinct (sequence, C) with >=2 items")
    run_pack_groups(ck, groups, {"C05"}, "C05 valid covers")
    ck.assumptions += ["TLC / SANY / CommunityModules", "dict input uses string names unrelated to the values"]


if __name__ == "__main__":
    import sys
    core.run_check(run, "C05", sys.argv[1:])
