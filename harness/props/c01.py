"""C01 - every partitioner returns a true partition into the requested number of bins."""
from .. import core, scope, drive, gen, models
from .common import *


def calls_for(g, fmts, ilp, all_switches=True):
    n, k = len(g["vals"]), g["k"]
    cs = []
    for fmt in fmts:
        main = fmt == "dict"
        cs += [call(a, fmt) for a in ("greedy", "roundrobin", "kk", "ckk", "snp", "rnp")]
        cs += [call("multifit", fmt, it=it) for it in ((10, 0, 3) if main else (10,))]
        cs += cg_calls(fmt, SWITCHES if (main and all_switches) else ["1101"], OBJ3)
        cs += [call("dp", fmt, o=o, kp=kp) for o, kp in ([("diff", 0), ("maxsum", 0), ("minsum", 0), ("klargest", 2), ("ksmallest", 2)] if main else [("diff", 0)])]
        if k == 2:
            cs += [call("cbldm", fmt, d=n, d_default=True), call("cbldm", fmt, d=1)]
        if ilp and main:
            cs += [call("ilp", fmt, o="maxsum")]
    return [c for c in cs if feasible(c["alg"], n, k)]


def ctx_of(fl):
    t = fl["trace"]
    r = t["res"][fl["e"] - 1]
    return {"alg": r["alg"], "k": t["k"], "vals": t["vals"], "fmt": r["fmt"], "cfg": r["cfg"], "o": r["o"], "out": r["out"]}


def run(ck):
    q = ck.quick()
    # L1: the complete-greedy machine conserves items at every step and never ends without a partition
    models.cg_mc(ck, 4 if q else 5, 3, 3, models.SW_SOME if q else models.SW_ALL, False, ["ResultValid", "ResultNotNone", "Conservation", "BestConsistent"])
    models.ckk_mc(ck, 4 if q else 5, 3, 3, ["Conservation", "ResultValid", "ResultNotNone"])
    # "a call that runs to completion": under weak fairness of the loop actions the uninterrupted search terminates (liveness, small scope)
    ck.mc("CompleteGreedy", "CONSTANTS MaxN = %d MinV = 0 MaxV = 2 MaxK = 3 Objs = {\"diff\", \"maxsum\", \"minsum\"} AllowInterrupt = FALSE\nSwitches = {0, 13, 15, 2}\n"
          "SPECIFICATION Spec\nPROPERTY Terminates\n" % (3 if q else 4), "MC CompleteGreedy liveness: <>(pc = done) under weak fairness", workers=4)
    P = scope.p_scope(ck, 5, 5, 4) if q else scope.p_scope(ck, 6, 6, 6)
    ck.exhaustive = True
    groups = []
    for i, g in enumerate(P):
        g = dict(g)
        g["calls"] = calls_for(g, ("dict", "list", "valueof", "repnames"), ilp=(i % (23 if q else 11) == 0), all_switches=True)
        groups.append(g)
    # beyond the exhaustive scope: seeded random / degenerate families (default switches + a few random combinations)
    fam = gen.part_families(ck.rng, 300 if q else 6000, maxn=9 if q else 11, maxv=100, maxk=5 if q else 7)
    for i, g in enumerate(fam):
        g["calls"] = calls_for(g, ("dict", "list"), ilp=(i % 40 == 0), all_switches=False) + \
            [call("cg", "dict", o=ck.rng.choice(OBJ3), sw=ck.rng.choice(SWITCHES)) for _ in range(3)]
        g["watchdog"] = 5
        groups.append(g)
    for g in scope.p_scope(ck, 10 if q else 11, 2, 4):      # "coarse" universe: many items, few distinct small values
        if len(g["vals"]) >= 8 and g["k"] >= 2:
            g = dict(g); g["calls"] = calls_for(g, ("dict", "list"), ilp=False, all_switches=False); g["watchdog"] = 20; groups.append(g)
    for g in gen.pigeonhole_family():                       # k+1 / k+2 nearly equal items into k = 2..8 bins
        g["calls"] = calls_for(g, ("dict", "list"), ilp=False, all_switches=False); g["watchdog"] = 20; groups.append(g)
    # multifit only: first-fit-decreasing is not monotone in the capacity, so whatever capacity the final packing uses must be one the search has verified;
    # a slip there shows on about 1 in 3000 lists of 8-20 values - cheap to run (no oracle needed for "at most numbins bins, every item once")
    rng = ck.rng
    for i in range(20000 if q else 150000):
        n = rng.randint(8, 20)
        groups.append({"vals": [rng.randint(5, 100) for _ in range(n)], "k": rng.randint(2, 6), "calls": [call("multifit", "list", it=10)], "watchdog": 20})
    groups += witness_groups(ck)
    ck.rule = ("TLC enumerates every bag of <=%d values in 0..%d x k<=%d (P-scope); every partitioner (complete greedy under all "
               "16 switch combinations x 3 objectives) is executed on each in dict / list / names+valueof presentation (distinct names, and names repeated for equal items); plus seeded random, "
               "all-equal, all-zero, k>n and pigeonhole (k+1, k+2 nearly equal items into k<=8 bins) families, and 20 000 random lists of 8-20 values for multifit alone. non-trivial = distinct (bag,k) with >=2 items and >=2 bins") % ((5, 5, 4) if q else (6, 6, 6))
    traces = core.pmap(drive.run_part_group, groups)
    for t in traces:
        ck.evaluations += len(t["res"])
        if nontrivial_part(t):
            ck.nontrivial.add(key_part(t))
        for r in t["res"]:
            if r["out"] == "timeout":
                ck.timeouts += 1
            ck.cat("alg:" + r["alg"])
        if any(v == 0 for v in t["vals"]):
            ck.cat("has_zero")
        if t["k"] > len(t["vals"]):
            ck.cat("k_gt_n")
        if len(set(t["vals"])) < len(t["vals"]):
            ck.cat("has_repeats")
    # watchdog expiries are dropped (no listed property is about termination) and counted
    for t in traces:
        t["res"] = [r for r in t["res"] if r["out"] != "timeout"]
    traces = [t for t in traces if t["res"]]
    ck.sample({"vals": traces[len(traces) // 2]["vals"], "k": traces[len(traces) // 2]["k"], "first_events": traces[len(traces) // 2]["res"][:2]})
    ck.sample({"vals": traces[-1]["vals"], "k": traces[-1]["k"], "first_events": traces[-1]["res"][:1]})
    fails = ck.judge("JPart", traces, {"C01"}, what="C01 partition validity", chunk=2500)
    ck.classify(fails, ctx_of)
    from .. import magnitude
    magnitude.run(ck, {"C01"}, 60 if q else 1500, objs=False)
    ck.assumptions += ["names<->ids bijection and value matching for plain lists are done by the harness (DESIGN 4.3)",
                       "TLC / SANY / CommunityModules", "totals < 2^31 in the exhaustive and random tiers; the magnitude tier (values up to 2^50, totals < 2^53) uses two-limb arithmetic in TLA+ (BigNat.tla)"]


if __name__ == "__main__":
    import sys
    core.run_check(run, "C01", sys.argv[1:])
