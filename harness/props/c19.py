"""C19 - unsatisfiable or malformed requests are refused with an error, never answered."""
from .. import core, scope, gen, drive
from .common import *


def run(ck):
    q = ck.quick()
    # every position x multiplicity of oversize items in sequences of <= 5 items: TLC enumerates all sequences over 0..C+2, those with an oversize item are kept
    Q = [g for g in scope.q_scope(ck, 4 if q else 5, 5, [3]) if max(g["vals"]) > g["C"]]
    Q += [g for g in scope.q_scope(ck, 3, 9, [8]) if max(g["vals"]) > g["C"]]
    ck.exhaustive = True
    groups = []
    for g in Q:
        g = dict(g); g["orc"] = 0
        g["calls"] = [dict(pcall(a, f, extra=False), allot=True) for a in PACKERS for f in ("list", "dict", "valueof")]
        groups.append(g)
    # dyadic: oversize by a fraction (value 9/8 with binsize 1)
    for g in scope.q_scope(ck, 3, 9, [8]):
        if max(g["vals"]) > g["C"]:
            g = dict(g); g["den"] = 8; g["orc"] = 0
            g["calls"] = [dict(pcall(a, "list", extra=False), allot=True) for a in FIT4]
            groups.append(g); ck.cat("dyadic_oversize")
    rng = ck.rng
    for i in range(100 if q else 12000):
        C = rng.choice([10, 50, 100])
        n = rng.randint(1, 10)
        vals = [rng.randint(0, C) for _ in range(n)]
        for _ in range(rng.randint(1, 2)):
            vals[rng.randrange(n)] = C + rng.choice([1, 1, 2, C])
        groups.append({"vals": vals, "C": C, "orc": 0,
                       "calls": [dict(pcall(a, rng.choice(["list", "dict", "valueof"]), extra=False), allot=True) for a in PACKERS]})
    # barely oversize: the item exceeds a LARGE bin size by one unit (relative excess far below any floating-point tolerance)
    for C in (2 ** 30, 10 ** 9, 999999937):
        for extra in (1, 2):
            for pos in range(3):
                vals = [rng.randint(0, 9) for _ in range(3)]
                vals[pos] = C + extra
                groups.append({"vals": vals, "C": C, "orc": 0,
                               "calls": [dict(pcall(a, f, extra=False), allot=True) for a in PACKERS for f in ("list", "dict", "valueof")]})
                ck.cat("barely_oversize")
    ck.rule = ("TLC enumerates every sequence of <=5 values in 0..C+2 containing at least one oversize item (every position and multiplicity); ff, ffd, bf, bfd "
               "and bin-completion called on each as list / dict / names+valueof with all ten output types - every call must raise ValueError (also at bin sizes 2^53 and 1e16, "
               "judged with two-limb comparison); request HISTORIES - the same items packed with a scan of bin sizes (descending, ascending, shuffled) in one interpreter - "
               "are stepped through JScan.tla: an oversize request is refused whatever was asked before; TLC also "
               "enumerates every cbldm call with exactly one invalid argument (bin count, negative item(s), time limit, cardinality bound; each also as numpy float / numpy integer / Fraction) over small valid "
               "inputs, plus the all-valid control; numitems probed on both managers. non-trivial = distinct stimulus")
    traces = run_pack_groups(ck, groups, {"C19"}, "C19 oversize refusal", nontrivial=lambda t: True)
    # magnitudes beyond TLC's integers: bin sizes 2^53 and 10^16 (exact python ints), an item one or two units larger, judged with two-limb comparison
    big = []
    for C in (2 ** 53, 10 ** 16):
        for extra in (1, 2):
            for shape in ([C + extra], [0, C + extra], [3, C + extra, 2], [C + extra, 5, 1], [C, C + extra], [1, 2, C + extra]):
                big.append({"vals": shape, "C": C, "calls": [(a, f, ot) for a in PACKERS for f in ("list", "dict", "valueof") for ot in ("Partition", "Sums")]})
    tb = core.pmap(drive.run_big_refuse, big)
    for t in tb:
        ck.evaluations += len(t["res"]); ck.cat("oversize_at_2^53_and_1e16")
        t["res"] = [r for r in t["res"] if r["out"] != "timeout"]
    fb = ck.judge("JBigRefuse", tb, {"C19"}, what="C19 oversize refusal at bin sizes 2^53 and 1e16 (two-limb comparison)")
    ck.classify(fb, lambda fl: {"alg": fl["trace"]["res"][fl["e"] - 1]["alg"] if fl["e"] else None, "vals": fl["trace"]["rawvals"], "C": fl["trace"]["rawC"],
                                "ev": fl["trace"]["res"][fl["e"] - 1] if fl["e"] else None})
    # request histories: one collection of items, a scan of bin sizes in one interpreter (descending / ascending / shuffled); stepwise trace spec JScan.tla
    scans = []
    base = [g["vals"] for g in scope.q_scope(ck, 3 if q else 4, 4, [3], minv=1) if len(g["vals"]) >= 2]
    base += [[rng.randint(1, 10) for _ in range(rng.randint(2, 6))] for _ in range(150 if q else 6000)]
    base += [[9, 1, 1, 1], [7, 7, 1], [12, 3, 3, 3, 3]]
    for i, vals in enumerate(base):
        top = min(sum(vals), max(vals) + 6)
        down = list(range(top, max(0, min(vals) - 1), -1))
        for order in (down, down[::-1], rng.sample(down, len(down))):
            alg = "bc" if i % 2 == 0 else rng.choice(PACKERS)
            scans.append({"vals": vals, "Cs": order, "alg": alg, "fmt": rng.choice(["list", "dict", "valueof"]), "ot": rng.choice(["Partition", "Sums", "BinCount", "PartitionAndSumsTuple"])})
    ts = [t for t in core.pmap(drive.run_scan, scans)]
    for t in ts:
        ck.evaluations += len(t["events"]); ck.nontrivial.add(("S", tuple(t["vals"]), tuple(e["C"] for e in t["events"]), t["alg"]))
        ck.cat("scan_requests_oversize", sum(1 for e in t["events"] if max(t["vals"]) > e["C"]))
        ck.cat("scan_requests_answered", sum(1 for e in t["events"] if e["out"] == "ret"))
        t["events"] = [e for e in t["events"] if e["out"] != "timeout"]
    ck.sample({"scan": {k: ts[0][k] for k in ("vals", "alg", "fmt", "ot")}, "first_events": ts[0]["events"][:4]})
    fs = ck.judge("JScan", ts, {"C19"}, what="C19 request histories (capacity scans), stepwise", chunk=4000, count_events=lambda t: len(t["events"]))
    ck.classify(fs, lambda fl: {"alg": fl["trace"]["alg"], "vals": fl["trace"]["vals"], "fmt": fl["trace"]["fmt"], "ot": fl["trace"]["ot"],
                                "history": fl["trace"]["events"][:fl["e"]]})
    r = ck.mc("RefuseGen", "CONSTANTS MaxN = %d MaxV = 3\nINIT Init\nNEXT Next\n" % (3 if q else 4), "GEN cbldm argument grid")
    stim = sorted(r.emitted, key=lambda e: (e["kind"], e["arg"], e["vals"]))
    tr = core.pmap(drive.run_refuse, stim)
    for t in tr:
        ck.evaluations += len(t["res"])
    for s in stim:
        ck.nontrivial.add(("R", tuple(s["vals"]), s["kind"], s["arg"]))
        ck.cat("cbldm_invalid:" + s["kind"])
    ck.sample({"cbldm_stimulus": stim[len(stim) // 2], "events": tr[len(stim) // 2]["res"][:2]})
    fails = ck.judge("JRefuse", tr, {"C19"}, what="C19 cbldm validation and numitems")
    ck.classify(fails, lambda fl: {"alg": fl["trace"]["res"][fl["e"] - 1]["what"], "vals": fl["trace"]["vals"], "ev": fl["trace"]["res"][fl["e"] - 1]})
    ck.assumptions += ["TLC / SANY / CommunityModules"]


if __name__ == "__main__":
    import sys
    core.run_check(run, "C19", sys.argv[1:])
