"""C16 - bins-manager operations keep sums and contents consistent, copies independent."""
from .. import core, drive, tlc
from .common import *

JCFG = "CONSTANTS Slots = {1, 2, 3} Items = {1, 2, 3, 100, 101} MaxBins = 12\nINVARIANT ModelConsistent\n"


ALL_OPS = ("new", "add", "addbad", "copy", "sort", "addempty", "remove", "concat", "combine")


def gen_cfg(slots, items, maxbins, maxops, newsizes=(0, 1, 2), ns=(0, 1, 2), ops=ALL_OPS):
    return ("CONSTANTS Slots = {%s} Items = {%s} MaxBins = %d MaxOps = %d NewSizes = {%s} Ns = {%s} Ops = {%s}\nINIT GInit\nNEXT GNext\nINVARIANT SumsConsistentV\nINVARIANT DeadSlotsEmpty\nINVARIANT EmitAtEnd\n"
            % (", ".join(map(str, slots)), ", ".join(map(str, items)), maxbins, maxops, ", ".join(map(str, newsizes)), ", ".join(map(str, ns)),
               ", ".join('"%s"' % o for o in ops)))


def ref_cfg(disc, maxops):
    return ("CONSTANTS Slots = {1, 2} Items = {1, 2} MaxBins = 3 MaxOps = %d Discipline = %s\nINIT RInit\nNEXT RNext\nINVARIANT Refines\nINVARIANT SumsConsistent\n"
            "INVARIANT SumsConsistentV\n%s" % (maxops, "TRUE" if disc else "FALSE", "PROPERTY Frame\n" if disc else ""))


def run(ck):
    q = ck.quick()
    # MC: the reference-semantics model (numpy views, shared inner lists) refines the value model under the hand-over discipline ...
    ck.mc("BinnerRef", ref_cfg(True, 5 if q else 6), "MC BinnerRef refines BinnerVal under the hand-over discipline", coverage=True,
          required_actions=("RNew", "RAdd", "RCopy", "RSort", "RConcat", "RAddEmpty", "RRemove", "RCombine"))
    # ... and does NOT without it (negative control: TLC must find the aliasing counterexample)
    r = ck.mc("BinnerRef", ref_cfg(False, 4), "negative control: without the discipline aliasing breaks refinement", expect_violation="Refines")
    ck.cat("negative_control_counterexample_found", 1 if r.violated else 0)
    # GEN: every history to depth 4 (quick) / 5, plus simulated deep walks
    r = ck.mc("BinnerGen", gen_cfg([1, 2], [1, 2], 2, 4), "GEN all operation histories to depth 4 (exhaustive)")
    hists = [e["ops"] for e in r.emitted]
    if not q:    # depth 5 with a single item value (the number of histories grows 20-fold per operation)
        r = ck.mc("BinnerGen", gen_cfg([1, 2], [1], 2, 5), "GEN all operation histories to depth 5, one item value (exhaustive)")
        hists += [e["ops"] for e in r.emitted]
    # a NARROW universe enumerated deeper: one array of three bins that is sorted, shrunk / grown by one bin, disturbed by additions and sorted again
    # (what an implementation that remembers "this array is sorted" - or hands out views of it - can get wrong)
    r = ck.mc("BinnerGen", gen_cfg([1], [1], 3, 6 if q else 8, newsizes=(3,), ns=(1,), ops=("new", "add", "sort", "remove", "addempty")),
              "GEN all histories of one three-bin array under add / sort / remove / add-empty to depth %d (exhaustive)" % (6 if q else 8))
    narrow = [e["ops"] for e in r.emitted]
    ck.cat("narrow_universe_histories", len(narrow))
    hists += narrow
    ck.exhaustive = True
    ck.cat("exhaustive_histories", len(hists))
    r = ck.mc("BinnerGen", gen_cfg([1, 2, 3], [1, 2, 3, 100, 101], 4, 12 if q else 20, newsizes=(0, 1, 2, 3)), "GEN simulated deep walks",
              simulate="num=%d" % (40 if q else 600), depth=14 if q else 22, dedupe_emits=True, workers=8)
    deep = [e["ops"] for e in r.emitted]
    ck.cat("simulated_histories_emitted", len(deep))
    deep.sort(key=json_key)
    ck.rng.shuffle(deep)
    deep = deep[:3000 if q else 30000]     # every candidate successor of a simulated walk is emitted; a seeded sample is replayed
    ck.cat("simulated_deep_histories", len(deep))
    stim = []
    for h in hists + deep:
        for mgr in ("contents", "sums"):
            stim.append({"ops": h, "mgr": mgr, "ns": 3})
    # a sample of the histories once more with every item value scaled by 2^-40 (sums that differ by less than 1e-9)
    tiny = [dict(x, tiny=1) for x in stim if x["ops"] and len(x["ops"]) >= 4]
    ck.rng.shuffle(tiny)
    stim += tiny[:4000 if q else 40000]
    ck.cat("tiny_value_histories", len(tiny[:4000 if q else 40000]))
    traces = core.pmap(drive.run_binner_hist, stim)
    for t in traces:
        ck.evaluations += len(t["ops"])
        if len(t["ops"]) >= 2:
            ck.nontrivial.add((t["mgr"], json_key([{k: o[k] for k in ("op", "a", "b", "i", "j", "n", "it")} for o in t["ops"]])))
        for o in t["ops"]:
            ck.cat("op:" + o["op"])
    ck.sample({"mgr": traces[len(traces) // 2]["mgr"], "ops": [{k: o[k] for k in ("op", "a", "b", "i", "j", "n", "it")} for o in traces[len(traces) // 2]["ops"]]})
    ck.sample({"last_event_with_projection": traces[-1]["ops"][-1]})
    ck.rule = ("TLC enumerates every history of <=%d bins-manager operations (new, add, rejected add (an item the value function does not know: no effect allowed), copy, sort, add-empty, remove, concatenate, combine over 2 slots x 2 items x <=2 bins, "
               "hand-over discipline built in) every history of <=%d operations of one three-bin array under add / sort / remove / add-empty, and simulates deep walks (3 slots, a zero-valued item and one worth 2^24+1, <=4 bins); each history is replayed on a real BinnerKeepingContents and "
               "BinnerKeepingSums, recording the projected state of every live array after every operation and the old handles of handed-over arguments (including the raw length of their list component); TLC steps the "
               "value model through every event. non-trivial = distinct (manager, history) with >=2 operations") % (4 if q else 5, 6 if q else 8)
    fails = ck.judge("JBinner", traces, {"C16"}, what="C16 histories stepped through BinnerVal", chunk=8000, extra_consts=JCFG,
                     count_events=lambda t: len(t["ops"]))
    ck.classify(fails, lambda fl: {"alg": fl["trace"]["mgr"], "at": fl["e"], "ops": [{k: o[k] for k in ("op", "a", "b", "i", "j", "n", "it")} for o in fl["trace"]["ops"][:fl["e"]]],
                                   "observed": fl["trace"]["ops"][fl["e"] - 1]["st"] if fl["e"] else None})
    ck.assumptions += ["TLC / SANY / CommunityModules", "the hand-over discipline stated in the property (arrays given to add-empty / remove / concatenate are dead afterwards)",
                       "projection through binner.sums / numbins / numitems and the lists component"]


def json_key(x):
    import json
    return json.dumps(x, sort_keys=True)


if __name__ == "__main__":
    import sys
    core.run_check(run, "C16", sys.argv[1:])
