"""C06 - reported sums and derived outputs always describe the returned bins."""
from .. import core, scope, gen, drive
from .common import *


def part_calls(g, ilp):
    n, k = len(g["vals"]), g["k"]
    cs = [call(a, "list") for a in ("greedy", "roundrobin", "kk", "ckk", "snp", "rnp")] + [call("multifit", "list", it=10)]
    cs += [call("cg", "list", o=o, sw=sw) for o, sw in (("diff", "1101"), ("maxsum", "1111"), ("minsum", "1001"))]
    cs += [call("dp", "list", o=o, kp=kp) for o, kp in (("diff", 0), ("minsum", 0), ("klargest", 2))]
    if k == 2:
        cs += [call("cbldm", "list", d=n, d_default=True), call("cbldm", "list", d=1)]
    if ilp:
        cs += [call("ilp", "list", o="maxsum")]
    return [dict(c, allot=True) for c in cs if feasible(c["alg"], n, k)]


def ctx_part(fl):
    t = fl["trace"]
    r = t["res"][fl["e"] - 1]
    return {"alg": r["alg"], "k": t["k"], "vals": t["vals"], "fmt": r["fmt"], "cfg": r["cfg"], "out": r["out"], "sums": r["sums"], "lists": r["lists"],
            "ots": [(x["t"], x["out"], x["v"]) for x in r.get("ots", [])][:7]}


def run(ck):
    q = ck.quick()
    P = scope.p_scope(ck, 5 if q else 6, 4, 4)
    ck.exhaustive = True
    groups = []
    for i, g in enumerate(P):
        g = dict(g); g["calls"] = part_calls(g, i % (60 if q else 15) == 0); groups.append(g)
    for i, g in enumerate(gen.part_families(ck.rng, 120 if q else 3000, maxn=9, maxv=60, maxk=4)):
        g["calls"] = part_calls(g, i % 40 == 0); g["watchdog"] = 10; groups.append(g)
    # the recursive / sequential searches keep and re-use bins-arrays across their loop iterations from about 7 items on: contents and sums can drift apart there
    for g in gen.rnp_families(ck.rng, 250 if q else 5000):
        n, k = len(g["vals"]), g["k"]
        g["calls"] = [dict(call(a, "list"), allot=True) for a in g["only"] if feasible(a, n, k)]
        g.pop("only"); g["watchdog"] = 10; groups.append(g)
    traces = core.pmap(drive.run_part_group, groups)
    for t in traces:
        ck.evaluations += sum(1 + len(r.get("ots", [])) for r in t["res"])
        t["res"] = [r for r in t["res"] if r["out"] != "timeout" and all(x["out"] != "timeout" for x in r["ots"])]
        if t["res"] and nontrivial_part(t):
            ck.nontrivial.add(key_part(t))
    traces = [t for t in traces if t["res"]]
    m = traces[len(traces) // 2]
    ck.sample({"vals": m["vals"], "k": m["k"], "first_event": m["res"][0]})
    fails = ck.judge("JPart", traces, {"C06"}, what="C06 partitioners: sums describe bins, 10 output types agree", chunk=2500,
                     count_events=lambda t: sum(1 + len(r["ots"]) for r in t["res"]))
    ck.classify(fails, ctx_part)
    groups = []
    for g in scope.q_scope(ck, 4 if q else 5, 6, [6]) + scope.q_scope(ck, 4, 4, [4]):
        if max(g["vals"]) <= g["C"]:
            g = dict(g); g["orc"] = 0
            g["calls"] = [dict(pcall(a, "list", extra=False), allot=True) for a in PACKERS]
            groups.append(g)
    for g in scope.q_scope(ck, 4 if q else 5, 8, [6], minv=1) + scope.q_scope(ck, 3 if q else 4, 7, [5, 7], minv=1):
        g = dict(g); g["orc"] = 0
        g["calls"] = [dict(pcall(a, "list", extra=False), allot=True) for a in COVERS]
        groups.append(g)
    for g in gen.pack_families(ck.rng, 200 if q else 4000, maxn=12) + [{"vals": [30, 30, 30, 30, 40, 40], "C": 100}]:
        g = dict(g); g["orc"] = 0
        g["calls"] = [dict(pcall(a, "list", extra=False), allot=True) for a in PACKERS]
        groups.append(g)
    for g in gen.cover_families(ck.rng, 200 if q else 4000, maxn=25):
        g = dict(g); g["orc"] = 0
        g["calls"] = [dict(pcall(a, "list", extra=False), allot=True) for a in COVERS]
        groups.append(g)
    for g in gen.near_miss_families(ck.rng, 60 if q else 600, giga=True):        # bin sizes up to 1e9, sums one unit short: sums-only outputs vs the bins
        g = dict(g); g["orc"] = 0
        g["calls"] = [dict(pcall(a, "list", extra=False), allot=True) for a in COVERS]
        groups.append(g)
    for g in scope.q_scope(ck, 3, 8, [8]):
        if max(g["vals"]) <= g["C"]:
            g = dict(g); g["den"] = 8; g["orc"] = 0
            g["calls"] = [dict(pcall(a, "list", extra=False), allot=True) for a in FIT4]
            groups.append(g)
    ck.rule = ("every partitioning, packing and covering algorithm is called on every input of a TLC-enumerated universe with each of the ten output types of prtpy.out; "
               "TLC checks that every reported sum equals the total of the reported bin (OutputTypes.tla) and that each cheaper output equals what is derived from the "
               "full PartitionAndSumsTuple output (positionally for Sums); empty covers must fail rather than invent extremes. non-trivial = distinct input with >=2 items")
    run_pack_groups(ck, groups, {"C06"}, "C06 packers / covers: sums describe bins, 10 output types agree", chunk=5000)
    from .. import magnitude
    magnitude.run(ck, {"C06"}, 60 if q else 1500, objs=False)
    ck.assumptions += ["TLC / SANY / CommunityModules", "float sums are converted to exact integers (or flagged inexact) by the harness"]


if __name__ == "__main__":
    import sys
    core.run_check(run, "C06", sys.argv[1:])
