"""C15 - calls are pure: inputs untouched, results repeatable, no state across calls."""
import json, os, subprocess, sys
from concurrent.futures import ThreadPoolExecutor
import multiprocessing as mp
from .. import core, tlc


def fresh_table(n, hashseed):
    """each menu call in its own fresh interpreter"""
    env = dict(os.environ, PYTHONHASHSEED=str(hashseed), PYTHONDONTWRITEBYTECODE="1")

    def one(i):
        p = subprocess.run(["/venv/bin/python", "-m", "harness.session", "fresh", str(i)], cwd=tlc.VERIF, env=env, stdout=subprocess.PIPE, stderr=subprocess.PIPE, text=True, timeout=300)
        if p.returncode != 0:
            raise core.Machinery("fresh interpreter for menu call %d failed: %s" % (i, p.stderr[-400:]))
        return json.loads(p.stdout.strip().split("\n")[-1])

    with ThreadPoolExecutor(16) as ex:
        return {r["c"]: r for r in ex.map(one, range(1, n + 1))}


def _seq_worker(seq):
    """runs one history in a freshly forked grandchild: the pool worker itself never calls prtpy, so every history starts from the pristine imported state"""
    import os, json as _json
    r, w = os.pipe()
    pid = os.fork()
    if pid == 0:
        try:
            os.close(r)
            from .. import session
            try:
                data = _json.dumps(session.run_seq(seq)).encode()
            except core.StimulusTimeout:
                data = _json.dumps({core._HANG: "timeout"}).encode()
            with os.fdopen(w, "wb") as f:
                f.write(data)
        finally:
            os._exit(0)
    os.close(w)
    import select, signal, time as _time
    deadline = _time.time() + core.HANG_T * max(1, len(seq))
    chunks = []
    with os.fdopen(r, "rb") as f:
        while True:
            left = deadline - _time.time()
            if left <= 0 or not select.select([f], [], [], left)[0]:
                os.kill(pid, signal.SIGKILL)
                os.waitpid(pid, 0)
                return {core._HANG: "timeout"}
            b = os.read(f.fileno(), 1 << 16)
            if not b:
                break
            chunks.append(b)
    data = b"".join(chunks)
    os.waitpid(pid, 0)
    if not data:
        raise core.Machinery("history %s: the forked interpreter died without an answer" % (seq,))
    return _json.loads(data.decode())


def run(ck):
    q = ck.quick()
    from .. import session
    menu = session.build_menu()
    n = len(menu)
    F1 = fresh_table(n, 0)
    F2 = fresh_table(n, 12345) if not q else fresh_table(n, 7)
    # GEN: every ordered pair of menu calls (exhaustive), plus simulated long histories
    r = ck.mc("Session", "CONSTANTS MenuSize = %d MaxLen = 2\nINIT Init\nNEXT Next\nINVARIANT Emit\n" % n, "GEN every ordered pair of menu calls")
    seqs = [e["calls"] for e in r.emitted]
    # the menu has two parts: the base menu, and the calls on caller-owned containers / narrow arrays (which interact with one another: same container, same
    # dtype).  Quick tier: every ordered pair WITHIN each part, and every fourth mixed pair; thorough: every ordered pair.
    nb = min(i for i, dsc in enumerate(menu) if dsc["fmt"] == "narrowarray" or dsc["kw"].get("obj")) 
    if q:
        seqs = [s for s in seqs if (s[0] <= nb) == (s[1] <= nb) or (s[0] + s[1]) % 4 == 0]
    ck.exhaustive = True
    ck.cat("ordered_pairs", len(seqs))
    L = 8 if q else 30
    r = ck.mc("Session", "CONSTANTS MenuSize = %d MaxLen = %d\nINIT Init\nNEXT Next\nINVARIANT Emit\n" % (n, L), "GEN simulated long call histories",
              simulate="num=%d" % (32 if q else 1000), depth=L + 1, dedupe_emits=True, workers=8)
    longs = sorted((e["calls"] for e in r.emitted), key=json.dumps)
    ck.rng.shuffle(longs)
    longs = longs[:250 if q else 8000]
    ck.cat("long_histories", len(longs))
    seqs += longs
    # each history runs in its own freshly forked process; the parent has only IMPORTED prtpy (module initialisation), never called it
    from .. import drive  # noqa
    with mp.get_context("fork").Pool(16) as pool:
        evs = pool.map(_seq_worker, seqs, chunksize=8)
    for seq, ev in zip(seqs, evs):
        if core._is_hang(ev):
            raise core.HangFound("session.run_seq", {"calls": seq}, int(core.HANG_T * max(1, len(seq))))
    traces = []
    for seq, ev in zip(seqs, evs):
        for e in ev:
            e["fresh"] = F1[e["c"]]["ret"]; e["fresh2"] = F2[e["c"]]["ret"]
        traces.append({"events": ev})
        ck.evaluations += len(ev)
        if len(seq) >= 2:
            ck.nontrivial.add(tuple(seq))
    ck.sample({"menu_size": n, "menu_examples": [menu[0], menu[len(menu) // 2], menu[-1]]})
    ck.sample({"history": seqs[-1], "first_events": traces[-1]["events"][:2]})
    ck.rule = ("menu of %d calls mixing all algorithms, presentations (list / array / dict / names+valueof), output types, options and calls that must fail; TLC (Session.tla) generates every ordered "
               "pair of calls (quick tier: every pair within the base menu and within the container / narrow-array calls, a quarter of the mixed pairs) and simulated histories of length %d; each history runs in one freshly forked interpreter; every return is compared by TLC with the same call's return in a fresh "
               "interpreter (under two hash seeds) and the argument objects are digested before and after. non-trivial = distinct history with >=2 calls") % (n, L)
    fails = ck.judge("JSession", traces, {"C15"}, what="C15 call histories", chunk=4000, count_events=lambda t: len(t["events"]))
    ck.classify(fails, lambda fl: {"alg": menu[fl["trace"]["events"][fl["e"] - 1]["c"] - 1]["alg"], "call": menu[fl["trace"]["events"][fl["e"] - 1]["c"] - 1],
                                   "history": [e["c"] for e in fl["trace"]["events"][:fl["e"]]], "event": fl["trace"]["events"][fl["e"] - 1],
                                   "fresh_text": F1[fl["trace"]["events"][fl["e"] - 1]["c"]]["text"]})
    ck.assumptions += ["TLC / SANY / CommunityModules", "results are compared through a digest of their canonical form (type-tagged, order-preserving)",
                       "fresh-interpreter answers are measured in subprocesses under two PYTHONHASHSEED values"]


if __name__ == "__main__":
    core.run_check(run, "C15", sys.argv[1:])
