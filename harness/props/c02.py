"""C02 - exact partitioners attain the true optimum of their objective."""
from .. import core, scope, drive, gen, models
from .common import *

DP_OBJS = lambda k: [("diff", 0), ("maxsum", 0), ("minsum", 0)] + [(o, kp) for o in ("klargest", "ksmallest") for kp in range(1, k + 2)]


def calls_for(g, ilp, all_switches, rng=None):
    n, k = len(g["vals"]), g["k"]
    cs = [call(a, "dict") for a in ("ckk", "snp", "rnp")]
    cs += [call("dp", "dict", o=o, kp=kp) for o, kp in DP_OBJS(k)]
    if all_switches:
        cs += cg_calls("dict", SWITCHES, OBJ3)
    else:
        cs += cg_calls("dict", ["1101", "0000"], OBJ3) + [call("cg", "dict", o=rng.choice(OBJ3), sw=rng.choice(SWITCHES)) for _ in range(4)]
    if ilp:
        cs += [call("ilp", "dict", o=o, kp=kp) for o, kp in ilp]
    return [c for c in cs if feasible(c["alg"], n, k)]


def ctx_of(fl):
    t = fl["trace"]
    r = t["res"][fl["e"] - 1]
    return {"alg": r["alg"], "k": t["k"], "vals": t["vals"], "fmt": r["fmt"], "cfg": r["cfg"], "o": r["o"], "kp": r["kp"], "out": r["out"],
            "sums": r["sums"]}


def run(ck):
    q = ck.quick()
    P = scope.p_scope(ck, 5, 5, 4) if q else scope.p_scope(ck, 6, 6, 5)
    ck.exhaustive = True
    # oracle cross-validation on a small scope (machinery failure if the two formulations disagree)
    r = ck.mc("OracleX", "CONSTANTS MaxN = 4 MaxV = 3 MaxK = 3 Cs = {4}\nINIT Init\nNEXT Next\nINVARIANT OptAgrees\n",
              "oracle cross-validation Opt vs brute force")
    if r.violated:
        raise core.Machinery("oracle cross-validation failed: Opt disagrees with brute force")
    ck.violations = [v for v in ck.violations if not v[0].startswith("model:OracleX")]
    # L1: the complete-greedy machine is optimal on completion and never prunes away every optimal completion (B&B safety at every step);
    # its terminal states are replayed into the real code (identical partition, identical number of loop iterations, else DRIFT)
    models.cg_mc(ck, 4 if q else 5, 3 if q else 4, 3, models.SW_ALL, False, ["Optimal", "BBSafe", "BestConsistent"])
    models.cg_replay(ck, 4 if q else 5, 3 if q else 4, 3, models.SW_ALL)
    models.dp_mc(ck, 4 if q else 5, 3, 3)
    models.snp_mc_replay(ck, 5 if q else 6, 3 if q else 4)
    models.rnp_mc_replay(ck, 5 if q else 6, 3)
    models.ckk_mc(ck, 5, 4, 3, ["Optimal"])
    models.ckk_replay(ck, 5, 4, 3 if q else 4)
    groups = []
    ilp_objs = [("diff", 0), ("maxsum", 0), ("minsum", 0), ("klargest", 2), ("ksmallest", 2)]
    for i, g in enumerate(P):
        g = dict(g)
        ilp = [ilp_objs[(i // 7) % 5]] if i % (7 if q else 3) == 0 else None
        g["calls"] = calls_for(g, ilp, True)
        groups.append(g)
    fam = gen.part_families(ck.rng, 240 if q else 5000, maxn=9 if q else 10, maxv=60 if q else 100, maxk=4 if q else 5)
    fam += gen.rnp_families(ck.rng, 400 if q else 6000)
    fam += gen.window_tight_families(ck.rng, 400 if q else 6000)
    for i, g in enumerate(fam):
        if g["k"] ** len(g["vals"]) > 1200000:      # keep the TLA+ oracle (set of sorted sum vectors) affordable
            g["vals"] = g["vals"][:8]
        ilp = [ilp_objs[i % 5]] if i % (16 if q else 6) == 0 else None
        g["calls"] = calls_for(g, ilp, False, ck.rng) if not g.get("only") else [call(a, "dict") for a in g["only"]]
        g["watchdog"] = 10
        groups.append(g)
    # "coarse" universe: many items, few distinct small values (0..2): ties, zeros and repeated sums everywhere
    for g in scope.p_scope(ck, 10 if q else 11, 2, 3):
        if len(g["vals"]) >= 8 and g["k"] >= 2:
            g = dict(g); g["calls"] = calls_for(g, None, False, ck.rng); g["watchdog"] = 20; groups.append(g)
    for g in gen.near_equal_large(ck.rng, 40 if q else 600):     # large, relatively close values (tolerances, precision)
        g["calls"] = calls_for(g, None, False, ck.rng); g["watchdog"] = 20; groups.append(g)
    for g in gen.dominant_family(ck.rng, 30 if q else 600, k=2) + gen.dominant_family(ck.rng, 10 if q else 200, k=3):
        g["calls"] = calls_for(g, None, False, ck.rng); g["watchdog"] = 20; groups.append(g)
    for g in gen.heavy_item_family(ck.rng, 200 if q else 4000):   # one item >= all the others together, 3-5 bins
        g["calls"] = calls_for(g, None, False, ck.rng); g["watchdog"] = 20; groups.append(g); ck.cat("heavy_item_family")
    groups += witness_groups(ck)
    # inputs on which a defect was once observed (kept as regression witnesses; see known_findings.json)
    for vals, k in (([68, 22, 72, 23, 31, 30, 4], 4), ([7, 4, 5, 5, 14, 7, 11, 11], 5), ([2, 2, 2, 3, 3, 5, 6], 4), ([12, 10, 8, 7, 6], 2), ([8, 5, 4, 2], 2)):
        groups.append({"vals": vals, "k": k, "calls": calls_for({"vals": vals, "k": k}, None, True)})
    # deeper bounded-exhaustive scope for the recursive / sequential partitioners only: every bag of 6-7 values in 1..9 into 3 bins, 1..7 into 4 bins, 1..6 into 5 bins
    # (their even/odd branches and tree windows only do real work from about 7 items on)
    ndeep = 0
    for (mn, mv, ks) in (((7, 9, (3,)), (7, 7, (4,)), (7, 6, (5,))) if q else ((8, 9, (3,)), (8, 7, (4,)), (8, 6, (5,)))):
        for g in scope.p_scope(ck, mn, mv, 1, minv=1):
            if len(g["vals"]) >= 6:
                for k in ks:
                    groups.append({"vals": g["vals"], "k": k, "calls": [call("rnp", "dict"), call("snp", "dict")] + ([call("ckk", "dict")] if k <= 4 else []), "watchdog": 20})
                    ndeep += 1
    ck.cat("deep_rnp_snp_scope_groups", ndeep)
    ck.rule = ("TLC enumerates every bag of <=%d values in 0..%d x k<=%d; dp (5 objectives, every k-parameter), complete greedy (16 switch "
               "combinations x 3 objectives), ckk, snp, rnp and (sub-sampled) ilp are executed on each; plus seeded random families n<=10, "
               "v<=100 (4-bin instances emphasised for rnp); optimum recomputed in TLA+ (Oracles.Opt); beyond that size (8-11 items, 3-5 bins) rnp, snp, ckk, dp and cg are judged "
               "against witness partitions from the harness's own exhaustive search, which TLC checks itself (JWit). non-trivial = distinct (bag,k) with >=2 items and >=2 bins"
               ) % ((5, 5, 4) if q else (6, 6, 5))
    traces = core.pmap(drive.run_part_group, groups)
    for t in traces:
        ck.evaluations += len(t["res"])
        if nontrivial_part(t):
            ck.nontrivial.add(key_part(t))
        for r in t["res"]:
            if r["out"] == "timeout":
                ck.timeouts += 1
            ck.cat("alg:" + r["alg"])
    for t in traces:
        t["res"] = [r for r in t["res"] if r["out"] != "timeout"]
    traces = [t for t in traces if t["res"]]
    ck.sample({"vals": traces[len(traces) // 2]["vals"], "k": traces[len(traces) // 2]["k"], "first_events": traces[len(traces) // 2]["res"][:2]})
    ck.sample({"vals": traces[-1]["vals"], "k": traces[-1]["k"], "first_events": traces[-1]["res"][:1]})
    fails = ck.judge("JPart", traces, {"C02"}, what="C02 optimality", chunk=4000)
    # solver-inconsistency rule (property text): an ILP rejection is re-solved once with preprocessing off
    retry, keep = [], []
    for fl in fails:
        r = fl["trace"]["res"][fl["e"] - 1]
        (retry if r["alg"] == "ilp" and not r.get("nopre") else keep).append(fl)
    if retry:
        gs = []
        for fl in retry:
            r = dict(fl["trace"]["res"][fl["e"] - 1])
            c = call("ilp", r["fmt"], o=r["o"], kp=r["kp"], nopre=1)
            gs.append({"vals": fl["trace"]["vals"], "k": fl["trace"]["k"], "calls": [c]})
        t2 = core.pmap(drive.run_part_group, gs)
        f2 = ck.judge("JPart", t2, {"C02"}, what="C02 ilp re-solve without preprocessing")
        bad = {id(fl["trace"]) for fl in f2}
        still = [fl for fl in f2]
        ck.cat("solver_inconsistency", len(retry) - len({id(fl["trace"]) for fl in f2}))
        keep += still
    ck.classify(keep, ctx_of)
    # beyond the exhaustive oracle: 8-11 items into 3-5 bins, judged against a WITNESS partition that TLC checks itself (JWit): a result worse than
    # the witness is not optimal, whatever the optimum is
    wg = []
    for i, g in enumerate(gen.witness_family(ck.rng, 7000 if q else 30000)):
        n, k = len(g["vals"]), g["k"]
        cs = [call("rnp", "dict"), call("snp", "dict"), call("cg", "dict", o="diff", sw="1101")]
        if k <= 4 or n <= 8:
            cs.append(call("ckk", "dict"))
        if k == 3:          # dynamic programming takes seconds per call from 4 bins x 9 items on
            cs.append(call("dp", "dict", o="diff"))
        wg.append({"vals": g["vals"], "k": k, "o": "diff", "kp": 0, "calls": cs, "watchdog": 30})
        if i % 4 == 0:
            o, kp = [("maxsum", 0), ("minsum", 0), ("klargest", 2), ("ksmallest", 2)][(i // 4) % 4]
            cs2 = ([call("dp", "dict", o=o, kp=kp)] if k == 3 else []) + ([call("cg", "dict", o=o, sw="1111")] if kp == 0 else [])
            if not cs2:
                continue
            wg.append({"vals": g["vals"], "k": k, "o": o, "kp": kp, "calls": cs2, "watchdog": 30})
    tw = core.pmap(drive.run_wit_group, wg)
    for t in tw:
        ck.evaluations += len(t["res"])
        ck.nontrivial.add(key_part(t))
        for r in t["res"]:
            if r["out"] == "timeout":
                ck.timeouts += 1
        t["res"] = [r for r in t["res"] if r["out"] != "timeout"]
    tw = [t for t in tw if t["res"]]
    ck.cat("witness_judged_groups", len(tw))
    fw = ck.judge("JWit", tw, {"C02"}, what="C02 beyond the oracle: results against TLC-checked witness partitions", chunk=6000)
    ck.classify(fw, ctx_of)
    ck.assumptions += ["the MIP solver returns what it claims; an ILP answer rejected by TLC is re-solved once with preprocessing off and only a repeated rejection is a violation",
                       "TLC / SANY / CommunityModules; Oracles.Opt cross-validated against brute force on a small scope in this run",
                       "totals < 2^31 (TLC integers)"]


if __name__ == "__main__":
    import sys
    core.run_check(run, "C02", sys.argv[1:])
