"""C18 - results respect problem symmetries; exact solvers agree beyond oracle size."""
import itertools
from .. import core, scope, gen, drive
from .common import *

FACTORS = [2, 3, 7, 10, 1024]


def part_algs(n, k, rng, ilp=False):
    cs = [dict(alg=a) for a in ("greedy", "roundrobin", "kk", "ckk", "snp", "rnp")] + [dict(alg="multifit", it=10)]
    cs += [dict(alg="cg", o=o, sw=sw_dict(s), swc=s) for o, s in (("diff", "1101"), ("maxsum", "1111"), ("minsum", "1101"))]
    cs += [dict(alg="dp", o=o, kp=kp) for o, kp in (("diff", 0), ("maxsum", 0), ("ksmallest", 2))]
    if k == 2:
        cs += [dict(alg="cbldm", d=n + 5)]
    if ilp:
        cs += [dict(alg="ilp", o="minsum")]
    return [c for c in cs if feasible(c["alg"], n, k)]


def part_group(vals, k, rng, perms, ilp=False):
    evs = []
    n = len(vals)
    algs = part_algs(n, k, rng, ilp)
    def add(var, v, f=1, only=None):
        for c in algs:
            if only and not only(c):
                continue
            if not feasible(c["alg"], len(v), k):
                continue
            evs.append(dict(c, kind="part", var=var, f=f, vals=list(v), k=k))
    add("base", vals)
    for p in perms:
        add("perm", [vals[i] for i in p])
    for f in FACTORS:
        add("scale", [v * f for v in vals], f, only=lambda c: c["alg"] != "multifit" or f in (2, 1024))
    for z in (1, 2):
        zs = list(vals) + [0] * z
        pos = rng.randrange(len(zs))
        zs[pos], zs[-1] = zs[-1], zs[pos]
        add("zeros", zs, only=lambda c: c["alg"] in drive.EXACT)
    return {"base": {"vals": vals, "k": k}, "events": evs, "watchdog": 10}


def pack_group(vals, C, rng, perms, cover):
    evs = []
    algs = COVERS if cover else ["ff", "bf", "ffd", "bfd", "bc"]
    def add(var, v, c, f=1, only=None):
        for a in algs:
            if only and not only(a):
                continue
            evs.append(dict(alg=a, kind="pack", var=var, f=f, vals=list(v), C=c))
    add("base", vals, C)
    for p in perms:
        add("perm", [vals[i] for i in p], C, only=lambda a: a not in ("ff", "bf"))
    for f in FACTORS:
        add("scale", [v * f for v in vals], C * f, f)
    return {"base": {"vals": vals, "C": C}, "events": evs, "watchdog": 10}


def agree_group(vals, k, rng, ilp):
    evs = []
    n = len(vals)
    for o, kp in (("diff", 0), ("maxsum", 0), ("minsum", 0)):
        evs.append(dict(alg="cg", o=o, kp=kp, sw=sw_dict("1101"), swc="1101", kind="part", var="agree", vals=vals, k=k))
        if k ** n <= 3000000:
            evs.append(dict(alg="dp", o=o, kp=kp, kind="part", var="agree", vals=vals, k=k))
        if ilp:
            evs.append(dict(alg="ilp", o=o, kp=kp, kind="part", var="agree", vals=vals, k=k))
        for h in ("greedy", "kk", "multifit", "roundrobin"):
            evs.append(dict(alg=h, o=o, kp=kp, kind="part", var="agree", vals=vals, k=k))
    for a in ("ckk", "snp", "rnp"):
        if (a != "ckk" or k <= 3) and (k <= 4 or n <= 12):
            evs.append(dict(alg=a, o="diff", kp=0, kind="part", var="agree", vals=vals, k=k))
    if k == 2:
        evs.append(dict(alg="cbldm", o="diff", kp=0, d=n + 5, kind="part", var="agree", vals=vals, k=k))
    return {"base": {"vals": vals, "k": k}, "events": evs, "watchdog": 30}


def run(ck):
    q = ck.quick()
    rng = ck.rng
    groups = []
    # base inputs from the TLC-enumerated P-scope; all permutations for n <= 4 (quick) / 5
    P = scope.p_scope(ck, 4 if q else 5, 4, 3)
    ck.exhaustive = True
    for i, g in enumerate(P):
        n = len(g["vals"])
        perms = [p for p in itertools.permutations(range(n)) if list(p) != list(range(n))]
        perms = sorted({tuple(g["vals"][i] for i in p): p for p in perms}.values())       # distinct reorderings only
        if len(perms) > 6:
            perms = rng.sample(perms, 6)
        groups.append(part_group(g["vals"], g["k"], rng, perms, ilp=(i % (50 if q else 12) == 0)))
    for g in gen.part_families(rng, 60 if q else 1500, maxn=9, maxv=60, maxk=4):
        n = len(g["vals"])
        perms = [rng.sample(range(n), n) for _ in range(3)]
        groups.append(part_group(g["vals"], g["k"], rng, perms))
    Q = scope.q_scope(ck, 4, 6, [6]) + scope.q_scope(ck, 4, 5, [5])
    for g in Q:
        if max(g["vals"]) <= g["C"] and min(g["vals"]) >= 1:
            n = len(g["vals"])
            perms = [p for p in itertools.permutations(range(n)) if list(p) != list(range(n))][:5]
            groups.append(pack_group(g["vals"], g["C"], rng, perms, cover=False))
    for g in scope.q_scope(ck, 4, 8, [6], minv=1) + scope.q_scope(ck, 4, 7, [5, 7], minv=1):
        n = len(g["vals"])
        perms = [p for p in itertools.permutations(range(n)) if list(p) != list(range(n))][:5]
        groups.append(pack_group(g["vals"], g["C"], rng, perms, cover=True))
    for g in gen.pack_families(rng, 60 if q else 1500, maxn=11, minv=1):
        n = len(g["vals"])
        groups.append(pack_group(g["vals"], g["C"], rng, [rng.sample(range(n), n) for _ in range(2)], cover=False))
    for g in gen.cover_families(rng, 60 if q else 1500, maxn=20):
        n = len(g["vals"])
        groups.append(pack_group(g["vals"], g["C"], rng, [rng.sample(range(n), n) for _ in range(2)], cover=True))
    # agreement beyond oracle size: 11-16 items, 2-5 bins, families on which the searches terminate quickly
    na = 24 if q else 1200
    for i in range(na):
        k = rng.choice([2, 2, 3, 3, 4, 5])
        n = rng.randint(11, 16 if k <= 3 else (13 if k == 4 else 12))
        vals = [rng.randint(1, 30) for _ in range(n)]
        groups.append(agree_group(vals, k, rng, ilp=(not q and i % 10 == 0)))
        ck.cat("agreement_groups")
    # one item at least as large as all the others together, 4-5 bins: the rest is an instance of its own with one bin fewer, and what is optimal for the rest alone
    # (its difference) is not what the whole needs (its smallest sum).  About 1 in 100 such instances tells the two apart, hence many small groups: the exact
    # difference-minimisers only (complete greedy, dp, snp, rnp).
    for i in range(500 if q else 5000):
        k = 4 if i % 4 else 5
        rest = [rng.randint(1, rng.choice([60, 200, 1000])) for _ in range(rng.randint(7, 8) if k == 4 else 7)]
        vals = [sum(rest) + rng.choice([0, 1, 5, 40])] + rest
        evs = [dict(alg="cg", o="diff", kp=0, sw=sw_dict("1101"), swc="1101", kind="part", var="agree", vals=vals, k=k)]
        evs += [dict(alg=a, o="diff", kp=0, kind="part", var="agree", vals=vals, k=k) for a in ("snp", "rnp")]
        if i % 5 == 0:
            evs.append(dict(alg="dp", o="diff", kp=0, kind="part", var="agree", vals=vals, k=k))
        groups.append({"base": {"vals": vals, "k": k}, "events": evs, "watchdog": 30})
        ck.cat("agreement_groups_heavy_item")
    for g in gen.near_equal_large(rng, 12 if q else 250):      # large, relatively close values (tolerance comparisons, precision): exact solvers must still agree
        groups.append(agree_group(g["vals"], g["k"], rng, ilp=False))
        ck.cat("agreement_groups_large_near_equal")
    # WIDE values: with values up to a few thousand the dynamic program holds hundreds of thousands of distinct states (a cap on the states kept, or any
    # other size-dependent shortcut, only shows here); one dp call takes about half a minute, so only a handful
    for i in range(4 if q else 24):
        k, n = (3, 14) if (q or i % 3 != 2) else (4, 11)
        vals = [rng.randint(20, 2000) for _ in range(n)]
        if i % 2 == 0:
            vals.sort()
        evs = []
        for o in (("diff",) if q else ("diff", "minsum", "maxsum")):
            evs.append(dict(alg="cg", o=o, kp=0, sw=sw_dict("1101"), swc="1101", kind="part", var="agree", vals=vals, k=k))
            evs.append(dict(alg="dp", o=o, kp=0, kind="part", var="agree", vals=vals, k=k))
        evs += [dict(alg=a, o="diff", kp=0, kind="part", var="agree", vals=vals, k=k) for a in ("snp", "rnp")]
        groups.append({"base": {"vals": vals, "k": k}, "events": evs, "watchdog": 240})
        ck.cat("wide_value_agreement_groups")
    for kf in ck.known:      # every known finding's witness is re-executed on every run
        w = kf.get("witness")
        if kf.get("status") == "known" and w and w.get("kind") == "meta":
            evs = [dict(alg="rnp", kind="part", var="base", f=1, vals=list(w["vals"]), k=w["k"])]
            evs += [dict(alg="rnp", kind="part", var="zeros", f=1, vals=list(w["vals"]) + [0] * z, k=w["k"]) for z in (1, 2)]
            groups.append({"base": {"vals": w["vals"], "k": w["k"]}, "events": evs, "watchdog": 10})
    traces = core.pmap(drive.run_meta_group, groups, chunksize=1)
    keep = []
    for t in traces:
        ck.evaluations += len(t["events"])
        to = [e for e in t["events"] if e["out"] == "timeout"]
        ck.timeouts += len(to)
        t["events"] = [e for e in t["events"] if e["out"] != "timeout"]
        if t["events"]:
            keep.append(t)
            ck.nontrivial.add(json_key(t["base"]))
        for e in t["events"]:
            ck.cat("var:" + e["var"])
    m = keep[len(keep) // 2]
    ck.sample({"base": m["base"], "events": m["events"][:3]})
    ck.sample({"base": keep[-1]["base"], "events": keep[-1]["events"][:2]})
    ck.rule = ("base inputs from TLC-enumerated universes (bags n<=%d; sequences for packing/covering) and seeded families; every algorithm is re-run on all/sampled reorderings, on the input scaled by "
               "{2,3,7,10,1024} (bin size too; powers of two only for multifit), and with zero-valued items added; agreement groups of 11-16 items and 2-5 bins run every exact algorithm "
               "and the heuristics; TLC judges the relations (JMeta.tla). non-trivial = distinct base input") % (4 if q else 5)
    fails = ck.judge("JMeta", keep, {"C18"}, what="C18 metamorphic relations", chunk=1500, count_events=lambda t: len(t["events"]))
    ck.classify(fails, lambda fl: {"alg": fl["trace"]["events"][fl["e"] - 1]["alg"], "base": fl["trace"]["base"], "event": fl["trace"]["events"][fl["e"] - 1],
                                   "k": fl["trace"]["base"].get("k", 0)})
    ck.assumptions += ["TLC / SANY / CommunityModules", "agreement instances are drawn from families on which the exact searches terminate quickly; calls that hit the watchdog are dropped and counted",
                       "totals < 2^31 after scaling by 1024"]


def json_key(x):
    import json
    return json.dumps(x, sort_keys=True)


if __name__ == "__main__":
    import sys
    core.run_check(run, "C18", sys.argv[1:])
