"""C12 - balanced 2-way partitioning (CBLDM) obeys the cardinality bound and is optimal under it."""
from .. import core, scope, drive, gen, models
from .common import *


def calls_for(n):
    cs = [call("cbldm", "dict", d=n, d_default=True)]
    cs += [call("cbldm", "dict", d=d) for d in sorted({1, 2, 3, max(1, n - 1), n, n + 3})]
    cs += [call("cbldm", "list", d=1), call("cbldm", "list", d=n, d_default=True)]
    return cs


def ctx_of(fl):
    t = fl["trace"]
    r = t["res"][fl["e"] - 1]
    return {"alg": r["alg"], "k": t["k"], "vals": t["vals"], "d": r["d"], "out": r["out"], "sums": r["sums"], "lists": r["lists"]}


def run(ck):
    q = ck.quick()
    # L1: the CBLDM machine (explicit-stack transcription of the recursion) is optimal under every bound and conserves items at every call;
    # its terminal states are replayed into the real code (identical partition and number of recursive calls, else DRIFT)
    models.cbldm_mc(ck, 6 if q else 7, 4, [1, 2, 3, 7], False, ["Conservation", "ResultValid", "Optimal"])
    models.cbldm_replay(ck, 6 if q else 7, 4, [1, 2, 7])
    P = [g for g in (scope.p_scope(ck, 7, 5, 2) if q else scope.p_scope(ck, 9, 5, 2)) if g["k"] == 2]
    ck.exhaustive = True
    groups = []
    for g in P:
        g = dict(g); g["calls"] = calls_for(len(g["vals"])); groups.append(g)
    rng = ck.rng
    for i in range(300 if q else 12000):
        n = rng.randint(2, 12)
        kind = i % 4
        if kind == 0:
            vals = [1] * n                                    # the all-ones family on which the paper's rule was wrong
        elif kind == 1:
            base = rng.randint(1, 30)
            vals = [base + rng.choice([0, 0, 0, 1]) for _ in range(n)]
        elif kind == 2:
            vals = [rng.randint(0, 9) for _ in range(n)]
        else:
            vals = [rng.randint(0, 1000) for _ in range(n)]
        groups.append({"vals": vals, "k": 2, "calls": calls_for(n), "watchdog": 20})
    from .. import gen
    for g in gen.dominant_family(rng, 60 if q else 1500):     # a dominant item of about 2e9: differences that agree to a relative 1e-9
        groups.append({"vals": g["vals"], "k": 2, "calls": calls_for(len(g["vals"])), "watchdog": 20})
    ck.rule = ("TLC enumerates every bag of <=%d values in 0..5; cbldm executed with the default (unbounded) setting and every cardinality bound in "
               "{1,2,3,n-1,n,n+3}; plus all-ones, near-all-equal, random (n<=12) and dominant-item (one item of 2e9) families; optimum under the bound recomputed in TLA+ (OptBalanced over "
               "all subsets). non-trivial = distinct bag with >=2 items") % (7 if q else 9)
    traces = core.pmap(drive.run_part_group, groups)
    for t in traces:
        ck.evaluations += len(t["res"])
        for r in t["res"]:
            if r["out"] == "timeout":
                ck.timeouts += 1
        t["res"] = [r for r in t["res"] if r["out"] != "timeout"]
        if len(t["vals"]) >= 2:
            ck.nontrivial.add(key_part(t))
    traces = [t for t in traces if t["res"]]
    ck.sample({"vals": traces[len(traces) // 2]["vals"], "k": 2, "first_events": traces[len(traces) // 2]["res"][:2]})
    ck.sample({"vals": traces[-1]["vals"], "k": 2, "first_events": traces[-1]["res"][:1]})
    fails = ck.judge("JPart", traces, {"C12"}, what="C12 balanced optimum", chunk=2000)
    ck.classify(fails, ctx_of)
    ck.assumptions += ["TLC / SANY / CommunityModules", "totals < 2^31", "no time limit (time_limit=inf)"]


if __name__ == "__main__":
    import sys
    core.run_check(run, "C12", sys.argv[1:])
