"""C08 - partitioning heuristics meet their proven worst-case guarantees."""
from .. import core, scope, drive, gen, models, apalache
from .common import *


def calls_for(g, its=(10, 0, 1, 2, 5)):
    return [call(a, "dict") for a in ("greedy", "kk", "roundrobin")] + [call("multifit", "dict", it=it) for it in its]


def ctx_of(fl):
    t = fl["trace"]
    r = t["res"][fl["e"] - 1]
    return {"alg": r["alg"], "k": t["k"], "vals": t["vals"], "it": r["it"], "out": r["out"], "sums": r["sums"]}


def lpt_tight(k):
    # the classical tight family for LPT: 2k-1,2k-1,...,k+1,k+1,k,k,k
    v = []
    for x in range(2 * k - 1, k, -1):
        v += [x, x]
    return v + [k, k, k]


def run(ck):
    q = ck.quick()
    models.heur_mc(ck, ["greedy", "roundrobin"], ["PartStep", "FinalOK"], maxn=5 if q else 6, maxv=5, maxk=4)
    models.kk_mc_replay(ck, 5 if q else 6, 5, 4)
    models.kk_mc_replay(ck, 11 if q else 12, 2, 3, invariants=("Conservation", "SpreadBounded"))
    models.multifit_mc_replay(ck, 5 if q else 6, 5, 4)
    # unbounded item values (Apalache, symbolic): the gap bound and the round-robin shape as inductive invariants
    for K in ((3,) if q else (2, 3, 4, 5)):
        apalache.inductive(ck, "GreedyInd", {"K": K}, "greedy: max - min <= largest item, any item values, K=%d bins" % K)
        apalache.inductive(ck, "RoundRobinInd", {"K": K}, "round-robin: sums non-increasing in bin index, cardinalities within one, any item values, K=%d bins" % K, implied=("Shape",))
    P = scope.p_scope(ck, 6, 6, 4) if q else scope.p_scope(ck, 7, 7, 5)
    ck.exhaustive = True
    groups = []
    for g in P:
        g = dict(g); g["calls"] = calls_for(g); groups.append(g)
    # "coarse" universe: many items, few distinct small values (0..2) - where priority-queue and tie-breaking slips of KK / greedy first show
    for g in scope.p_scope(ck, 11 if q else 13, 2, 4):
        if len(g["vals"]) >= 7 and g["k"] >= 2:
            g = dict(g); g["calls"] = calls_for(g, its=(10, 2)); groups.append(g)
    # "medium" universe: every bag of 7-9 values in 0..4 into three bins (several rounds of dealing: where a rule applied to a whole round at once goes wrong)
    for g in scope.p_scope(ck, 9 if q else 10, 4, 3):
        if len(g["vals"]) >= 7 and g["k"] == 3:
            g = dict(g); g["calls"] = calls_for(g, its=(10,)); groups.append(g); ck.cat("medium_universe")
    fam = gen.part_families(ck.rng, 300 if q else 15000, maxn=9 if q else 10, maxv=60, maxk=4)
    for g in fam:
        if g["k"] ** len(g["vals"]) > 1200000:
            g["vals"] = g["vals"][:8]
        g["calls"] = calls_for(g, its=(10, ck.rng.choice([0, 1, 2, 3, 5])))
        groups.append(g)
    for k in (2, 3):
        groups.append({"vals": lpt_tight(k), "k": k, "calls": calls_for({})})
        ck.cat("lpt_tight_family")
    ck.rule = ("TLC enumerates every bag of <=%d values in 0..%d x k<=%d; greedy, kk, roundrobin and multifit (iterations 0,1,2,5,10) executed on "
               "each; optimum (largest / smallest sum) recomputed in TLA+; tight LPT family; seeded random n<=10. non-trivial = distinct (bag,k) with >=2 items and >=2 bins"
               ) % ((6, 6, 4) if q else (7, 7, 5))
    traces = core.pmap(drive.run_part_group, groups)
    for t in traces:
        ck.evaluations += len(t["res"])
        if nontrivial_part(t):
            ck.nontrivial.add(key_part(t))
    ck.sample({"vals": traces[len(traces) // 2]["vals"], "k": traces[len(traces) // 2]["k"], "first_events": traces[len(traces) // 2]["res"][:2]})
    fails = ck.judge("JPart", traces, {"C08"}, what="C08 ratio bounds / gap / round-robin shape", chunk=4000)
    ck.classify(fails, ctx_of)
    # large-instance half of the quantifier: planted perfect partitions (certificate => OPT = total/k), judged by JCert
    big = gen.planted_partitions(ck.rng, 40 if q else 2500, maxitems=60 if q else 300)
    for g in big:
        g["calls"] = calls_for(g, its=(10, 3))
    tb = core.pmap(drive.run_part_group, big)
    for t, g in zip(tb, big):
        t["cert"] = g["cert"]
        ck.evaluations += len(t["res"])
        ck.nontrivial.add(key_part(t))
    ck.cat("planted_large", len(tb))
    fails = ck.judge("JCert", tb, {"C08"}, what="C08 on planted large instances (certified optimum)", chunk=300)
    ck.classify(fails, ctx_of)
    ck.assumptions += ["TLC / SANY / CommunityModules", "totals < 2^31 (TLC integers)",
                       "on planted instances the optimum is certified (TLC checks the planted partition is a perfect partition, hence OPT = total/k for both largest and smallest sum)"]


if __name__ == "__main__":
    import sys
    core.run_check(run, "C08", sys.argv[1:])
