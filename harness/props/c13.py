"""C13 - search bounds are admissible and search enumerators are complete."""
from .. import core, drive
from .common import *


def cfg(mode, K=1, S=1, R=1, N=1, V=1, inv=""):
    return "CONSTANTS Mode = \"%s\" MaxK = %d MaxS = %d MaxR = %d MaxN = %d MaxV = %d\nINIT Init\nNEXT Next\n%s" % (mode, K, S, R, N, V, inv)


def run(ck):
    q = ck.quick()
    ck.exhaustive = True
    # (a) bounds: MC admissibility of the transcribed formulas + GEN
    K, S, R = (4, 5, 9) if q else (4, 7, 13)
    r = ck.mc("Gen13", cfg("bound", K=K, S=S, R=R, inv="INVARIANT BoundsAdmissible\n"), "MC transcribed bounds admissible + GEN sum vectors x remaining totals")
    tb = core.pmap(drive.run_bound, sorted(r.emitted, key=lambda e: (len(e["s"]), e["s"], e["R"])))
    rng = ck.rng
    extra = []
    for _ in range(100 if q else 3000):
        k = rng.randint(2, 5 if q else 6)
        s = sorted(rng.randint(0, 40) for _ in range(k))
        extra.append({"s": s, "R": rng.randint(0, 9 if k >= 5 else 14)})
    tb += core.pmap(drive.run_bound, extra)
    # (b) inclusion/exclusion tree
    N, V = (4, 3) if q else (5, 3)
    r = ck.mc("Gen13", cfg("tree", N=N, V=V), "GEN item sequences x half-integer windows")
    stim = sorted(r.emitted, key=lambda e: (len(e["vals"]), e["vals"], e["lb"], e["ub"]))
    if q:
        stim = [e for i, e in enumerate(stim) if len(e["vals"]) <= 3 or i % 4 == 0]
    tt = core.pmap(drive.run_tree, stim)
    extra = []
    for _ in range(150 if q else 3000):
        n = rng.randint(3, 8)
        vals = [rng.choice([0, 1, 2, 3, 5, 8, 13]) for _ in range(n)]
        tot = sum(vals)
        a, b = rng.randint(0, 2 * tot + 2), rng.randint(0, 2 * tot + 2)
        if rng.random() < 0.8 and a > b:
            a, b = b, a
        extra.append({"vals": vals, "lb": a, "ub": b})
    tt += core.pmap(drive.run_tree, extra)
    # (c) bin-combination enumerator
    K2, NC = (3, 5) if q else (4, 4)
    r = ck.mc("Gen13", cfg("comb", K=K2, S=NC), "GEN pairs of bins-arrays")
    tc = core.pmap(drive.run_comb, sorted(r.emitted, key=lambda e: (len(e["c1"]), e["c1"], e["c2"])))
    extra = []
    for _ in range(60 if q else 1500):
        k = rng.randint(2, 4 if q else 5)
        mk = lambda: [[rng.randint(1, 6) for _ in range(rng.randint(0, 2))] for _ in range(k)]
        extra.append({"c1": mk(), "c2": mk()})
    for i in range(40 if q else 600):     # large, nearly equal sums (a relative tolerance merges different pairings there); totals stay below 2^31
        B = rng.choice([10 ** 5, 10 ** 6, 10 ** 7, 25 * 10 ** 7])
        k = rng.randint(2, 3)
        extra.append({"c1": [[B + rng.randint(0, 9)] for _ in range(k)], "c2": [[rng.randint(0, 9)] if i % 2 else [B + rng.randint(0, 9)] for _ in range(k)]})
    tc += core.pmap(drive.run_comb, extra)
    traces = tb + tt + tc
    for t in tb:
        ck.evaluations += len(t["res"]); ck.cat("bound_calls", len(t["res"]))
        if len(t["s"]) >= 2 and t["R"] > 0:
            ck.nontrivial.add(("b", tuple(t["s"]), t["R"]))
    for t in tt:
        ck.evaluations += 1; ck.cat("tree_runs"); ck.cat("tree_yields", len(t["yields"]))
        if len(t["vals"]) >= 2 and t["yields"]:
            ck.nontrivial.add(("t", tuple(t["vals"]), t["lb2"], t["ub2"]))
    for t in tc:
        ck.evaluations += 2; ck.cat("comb_runs", 2)
        if len(t["c1"]) >= 2:
            ck.nontrivial.add(("c", json_key(t["c1"]), json_key(t["c2"])))
    ck.sample(tb[len(tb) // 2]["res"][0] | {"s": tb[len(tb) // 2]["s"], "R": tb[len(tb) // 2]["R"]})
    ck.sample({k: tt[len(tt) // 2][k] for k in ("vals", "lb2", "ub2", "yields")})
    ck.sample(tc[len(tc) // 2])
    ck.rule = ("TLC enumerates (a) every ascending sum vector k<=%d, entries<=%d x remaining total<=%d; (b) every item sequence n<=%d, values 0..%d x every half-integer "
               "window incl. empty/inverted; (c) every pair of bins-arrays k<=%d over %d bin contents. The real Objective.lower_bound (flag on/off, permuted input, list/tuple/array), "
               "InExclusionBinTree.generate_tree and Binner.all_combinations (both managers) are called on each; TLC judges admissibility against BestReach, flag/order independence, "
               "and exact-once completeness against SubsetsInWindow / DistinctPairings; plus seeded larger cases. non-trivial = distinct stimulus with >=2 bins/items and a non-empty answer"
               ) % (K, S, R, N, V, K2, NC)
    fails = ck.judge("J13", traces, {"C13"}, what="C13 bounds and enumerators", chunk=4000, count_events=lambda t: len(t.get("res", [])) or 1)
    ck.classify(fails, lambda fl: {"alg": fl["trace"]["kind"], "trace": {k: v for k, v in fl["trace"].items() if k != "res"},
                                   "ev": (fl["trace"]["res"][fl["e"] - 1] if fl["e"] else None)})
    ck.assumptions += ["TLC / SANY / CommunityModules", "windows are exact in float (half-integers)"]


def json_key(x):
    import json
    return json.dumps(x)


if __name__ == "__main__":
    import sys
    core.run_check(run, "C13", sys.argv[1:])
