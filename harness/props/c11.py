"""C11 - anytime algorithms are safe to interrupt and only ever improve."""
from .. import core, scope, drive, models
from .common import *


def run(ck):
    q = ck.quick()
    # L2 model: the abstract anytime search keeps its safety properties for every interleaving of Improve and Cut
    for which in (1, 2, 3, 4):
        ck.mc("Anytime", "CONSTANT Which = %d\nINIT AInit\nNEXT ANext\nINVARIANT ResultValid\nINVARIANT OptimalWhenExhausted\nPROPERTY Monotone\n" % which,
              "MC abstract anytime search: ResultValid, Monotone, OptimalWhenExhausted on case %d" % which, workers=4)
    # L1: complete greedy with the Interrupt action enabled in every loop state: TLC explores every interruption point of every input / configuration
    models.cg_mc(ck, 4, 3, 3, models.SW_SOME if q else models.SW_ALL, True, ["ResultValid", "ResultNotNone", "BestConsistent", "FirstIsLPT"], props=["Monotone"])
    models.cg_trail_replay(ck, 4, 3, 3, models.SW_SOME if q else models.SW_ALL)
    models.ckk_mc(ck, 4 if q else 5, 4, 3, ["YieldsImprove", "ResultValid"])
    models.cbldm_mc(ck, 6 if q else 7, 3, [1, 2, 7], True, ["ResultValid", "Conservation"], props=["Monotone"])
    P = scope.p_scope(ck, 4 if q else 5, 4, 3)
    ck.exhaustive = True
    stim = []
    sws = ["1101", "0000", "1111", "0010"] if q else SWITCHES
    for g in P:
        n, k = len(g["vals"]), g["k"]
        for o in OBJ3:
            for s in sws:
                stim.append({"alg": "cg", "vals": g["vals"], "k": k, "o": o, "sw": sw_dict(s), "swc": s})
        if k >= 2:
            stim.append({"alg": "ckkgen", "vals": g["vals"], "k": k, "o": "diff"})
    for g in (scope.p_scope(ck, 6 if q else 8, 4, 2)):
        if g["k"] == 2:
            n = len(g["vals"])
            for d, dd in ((n, True), (1, False), (2, False)):
                stim.append({"alg": "cbldm", "vals": g["vals"], "k": 2, "o": "diff", "d": d, "d_default": dd})
    # CBLDM's unlimited run on a larger universe (its pruning and early-stop rules only interact from about 6-7 items on): the one-entry cut history
    for g in scope.p_scope(ck, 7 if q else 8, 5, 2):
        if g["k"] == 2 and len(g["vals"]) >= 6:
            for dd in (1, 2):
                stim.append({"alg": "cbldm", "vals": g["vals"], "k": 2, "o": "diff", "d": dd, "d_default": False, "final_only": True})
    stim.append({"alg": "cbldm", "vals": [12, 4, 4, 2, 1, 1], "k": 2, "o": "diff", "d": 1, "d_default": False})
    rng = ck.rng
    for i in range(60 if q else 5000):
        n = rng.randint(4, 7)
        vals = [rng.randint(0, 30) for _ in range(n)]
        k = rng.randint(2, 3)
        s = rng.choice(SWITCHES)
        stim.append({"alg": "cg", "vals": vals, "k": k, "o": rng.choice(OBJ3), "sw": sw_dict(s), "swc": s})
        stim.append({"alg": "ckkgen", "vals": vals, "k": k, "o": "diff"})
        stim.append({"alg": "cbldm", "vals": vals + [rng.randint(0, 30) for _ in range(3)], "k": 2, "o": "diff", "d": rng.choice([1, 2, n + 3]), "d_default": False})
    from .. import gen
    for g in gen.near_equal_large(rng, 30 if q else 400):        # large, relatively close values: every cut point of complete greedy and the CKK generator
        s = rng.choice(["1101", "0000", "1111"])
        for o in OBJ3:
            stim.append({"alg": "cg", "vals": g["vals"], "k": g["k"], "o": o, "sw": sw_dict(s), "swc": s})
        stim.append({"alg": "ckkgen", "vals": g["vals"], "k": g["k"], "o": "diff"})
    for kf in ck.known:      # every known finding's witness is re-executed on every run
        w = kf.get("witness")
        if kf.get("status") == "known" and w and w.get("kind") == "anytime":
            stim.append({"alg": w["alg"], "vals": w["vals"], "k": w["k"], "o": w["o"], "sw": sw_dict(w["swc"]), "swc": w["swc"]})
    traces = core.pmap(drive.run_anytime, stim)
    keep = []
    for t in traces:
        ck.evaluations += len(t["cuts"])
        ck.cat("alg:" + t["alg"]); ck.cat("cut_points:" + t["alg"], len(t["cuts"]))
        if any(c["out"] == "timeout" for c in t["cuts"]):
            ck.timeouts += 1
            continue
        keep.append(t)
        if len(t["vals"]) >= 2 and len(t["cuts"]) >= 2:
            ck.nontrivial.add((t["alg"], tuple(t["vals"]), t["k"], t["o"], t["cfg"], t["d"]))
        kinds = [c["out"] for c in t["cuts"]]
        if "none" in kinds and "ret" in kinds:
            ck.cat("histories_with_none_then_solution")
        if len({json_key(c["lists"]) for c in t["cuts"] if c["out"] == "ret"}) >= 2:
            ck.cat("histories_with_improvement")
    m = keep[len(keep) // 3]
    ck.sample({k: m[k] for k in ("alg", "vals", "k", "o", "cfg", "R")} | {"cuts": [c["out"] + ":" + json_key(c["lists"]) for c in m["cuts"]][:12]})
    ck.rule = ("with a counting clock (n-th reading returns n) installed as the modules' time attribute, complete greedy (3 objectives x %d switch combinations), CBLDM (bounds default,1,2) and "
               "the CKK generator are run on every bag of a TLC-enumerated universe once per possible cut point c = 1..R (the limit test fires at the c-th reading) and unlimited; the whole cut "
               "history is stepped through the abstract anytime search (Anytime.tla) by TLC. non-trivial = distinct (algorithm, input, configuration) with >=2 items and >=2 cut points") % len(sws)
    fails = ck.judge("JAnytime", keep, {"C11"}, what="C11 cut histories", chunk=3000, count_events=lambda t: len(t["cuts"]))
    ck.classify(fails, lambda fl: {"alg": fl["trace"]["alg"], "vals": fl["trace"]["vals"], "k": fl["trace"]["k"], "o": fl["trace"]["o"], "cfg": fl["trace"]["cfg"], "d": fl["trace"]["d"],
                                   "cut": fl["e"], "result": fl["trace"]["cuts"][fl["e"] - 1] if fl["e"] else None})
    ck.assumptions += ["TLC / SANY / CommunityModules", "only the logical cut points are enumerated (counting clock), not wall-clock behaviour",
                       "Oracles.Opt / OptBalanced for the unlimited run"]


def json_key(x):
    import json
    return json.dumps(x)


if __name__ == "__main__":
    import sys
    core.run_check(run, "C11", sys.argv[1:])
