"""C03 - bin-packing results are feasible packings of exactly the input items."""
from .. import core, scope, gen, models
from .common import *

WITNESS = [{"vals": [4, 4, 8, 9, 9, 8, 7, 3, 4, 3], "C": 20}, {"vals": [30, 30, 30, 30, 40, 40], "C": 100}]


def run(ck):
    q = ck.quick()
    models.heur_mc(ck, ["ff", "bf", "ffd", "bfd"], ["FitStepInv", "FinalOK"], maxn=4 if q else 5)
    Q = scope.q_scope(ck, 5, 4, [4]) + scope.q_scope(ck, 5 if not q else 4, 6, [6])
    Q = [g for g in Q if max(g["vals"]) <= g["C"]]
    ck.exhaustive = True
    groups = []
    for g in Q:
        g = dict(g); g["orc"] = 0
        g["calls"] = [pcall(a, "list") for a in PACKERS]
        groups.append(g)
    for g in scope.q_scope(ck, 7 if q else 8, 2, [3, 4]):      # "coarse": longer arrival sequences over the values 0..2
        if len(g["vals"]) >= 6:
            g = dict(g); g["orc"] = 0; g["calls"] = [pcall(a, "list") for a in PACKERS]; groups.append(g)
    # dyadic fractions for the fit heuristics (values = numerators over 8, binsize 1 = 8/8 or 3/2 = 12/8)
    for g in scope.q_scope(ck, 4, 8, [8, 12]):
        if max(g["vals"]) <= g["C"]:
            g = dict(g); g["den"] = 8; g["orc"] = 0
            g["calls"] = [pcall(a, "list") for a in FIT4]
            groups.append(g); ck.cat("dyadic")
    for g in scope.p_scope(ck, 8 if q else 9, 7, 1, minv=2):
        if len(g["vals"]) >= 7:
            groups.append({"vals": g["vals"], "C": 12, "orc": 0, "calls": [pcall("bc", "list")]})
    fam = gen.pack_families(ck.rng, 400 if q else 30000, maxn=12 if q else 14)
    for g in fam + WITNESS + gen.near_miss_families(ck.rng, 60 if q else 600, cover=False, giga=True):
        g = dict(g); g["orc"] = 0
        g["calls"] = [pcall(a, "list") for a in PACKERS]
        g["watchdog"] = 20
        groups.append(g)
    for g in gen.long_families(ck.rng, 40 if q else 2000):                       # 65-260 items: code paths chosen by input size (fit heuristics only)
        g = dict(g); g["orc"] = 0; g["calls"] = [pcall(a, "list") for a in FIT4]; groups.append(g); ck.cat("long_sequences")
    for g in gen.gscale_families(ck.rng, 100 if q else 3000, cover=False):      # magnitudes around 2^31 (values <= 21 times a common factor of about 1e8)
        g = dict(g); g["orc"] = 0; g.pop("fmts")
        g["calls"] = [pcall(a, "list") for a in PACKERS]
        groups.append(g); ck.cat("common_factor_1e8")
    ck.rule = ("TLC enumerates every arrival sequence of <=5 values in 0..C for C in {4,6} (and dyadic eighths for the fit heuristics); ff, ffd, bf, bfd and "
               "bin-completion executed on each (plain list input: presentation formats belong to C07) with output types PartitionAndSumsTuple, BinCount and Sums; plus seeded families of 6-14 items "
               "(uniform, small, triplet, half-size, exact fills). non-trivial = distinct (sequence, C) with >=2 items")
    run_pack_groups(ck, groups, {"C03"}, "C03 feasibility")
    ck.assumptions += ["TLC / SANY / CommunityModules", "dyadic inputs are scaled to integers exactly by the harness", "totals < 2^31"]


if __name__ == "__main__":
    import sys
    core.run_check(run, "C03", sys.argv[1:])
