"""C17 - ILP options (copies, weights, constraints) are honoured; sums come out ascending."""
from .. import core, drive, models
from .common import *

OBJS = [("diff", 0), ("maxsum", 0), ("minsum", 0), ("klargest", 2), ("ksmallest", 2)]
STATUSES = ["FEASIBLE", "INFEASIBLE", "NO_SOLUTION_FOUND", "UNBOUNDED", "ERROR", "INT_INFEASIBLE", "CUTOFF", "LOADED", "OTHER"]


def stimuli(rng, count):
    out = []
    for i in range(count):
        n = rng.randint(1, 5)
        k = rng.randint(1, 4)
        vals = [rng.choice([rng.randint(1, 9), rng.randint(1, 40), rng.randint(1, 200)]) for _ in range(n)]
        kind = i % 6
        if i % 3 == 0 and n >= 2:          # repeated values: with plain-list input two positions then hold "the same item"
            vals[rng.randrange(n)] = vals[rng.randrange(n)]
        st = {"vals": vals, "k": k, "copies": [1] * n, "copies_scalar": True, "w": None, "cons": "none", "c": 0, "inject": "", "fmt": "list" if i % 2 else "dict"}
        st["o"], st["kp"] = OBJS[i % 5]
        if kind == 1:      # copies: one number
            st["copies"] = [2] * n if n * 2 * 1 <= 8 else [1] * n
        elif kind == 2:    # copies per item 0/1/2
            st["copies"] = [rng.choice([0, 1, 1, 2]) for _ in range(n)]
            st["copies_scalar"] = False
            while sum(st["copies"]) > 8:
                st["copies"][rng.randrange(n)] = 1
        elif kind == 3:    # weights
            st["w"] = [rng.choice([1, 2, 3, 10]) for _ in range(k)]
            if rng.random() < 0.35:
                st["w"] = [st["w"][0]] * k
            st["o"], st["kp"] = rng.choice([("minsum", 0), ("maxsum", 0), ("diff", 0)])
        elif kind == 4:    # additional constraints, feasible and infeasible
            st["cons"] = rng.choice(["smallest_eq", "largest_le", "smallest_ge"])
            tot = sum(vals)
            st["c"] = rng.choice([0, vals[0], tot // max(1, k), tot // max(1, k) + 1, tot, tot + 1, rng.randint(0, max(1, tot))])
        elif kind == 5:    # weights + constraint + copies
            st["w"] = [rng.choice([1, 2, 3]) for _ in range(k)]
            st["cons"] = rng.choice(["none", "largest_le", "smallest_ge"])
            st["c"] = rng.randint(0, max(1, sum(vals)))
            st["copies"] = [rng.choice([1, 1, 2]) for _ in range(n)]
            st["copies_scalar"] = False
            while sum(st["copies"]) > 7:
                st["copies"][rng.randrange(n)] = 1
            st["o"], st["kp"] = rng.choice([("minsum", 0), ("maxsum", 0)])
        if k ** sum(st["copies"]) > 70000:
            st["k"] = 3
            if st["w"]:
                st["w"] = st["w"][:3]
        out.append(st)
    return out


def weighted_family(rng, count):
    """6-8 items, 2-3 bins, unequal small weights: the weighted sums are fractions, so two partitions can differ in objective by less than 1 - what a
    solver tolerance (absolute gap, rounding of the objective) would blur"""
    out = []
    for i in range(count):
        k = rng.choice([2, 2, 3])
        n = rng.randint(6, 8 if k == 2 else 7)
        vals = [rng.randint(1, 30) for _ in range(n)]
        w = rng.sample([2, 3, 5, 7, 1], k)
        o, kp = [("minsum", 0), ("maxsum", 0), ("diff", 0), ("minsum", 0)][i % 4]
        out.append({"vals": vals, "k": k, "copies": [1] * n, "copies_scalar": True, "w": w, "cons": "none", "c": 0, "inject": "", "fmt": "list" if i % 2 else "dict",
                    "o": o, "kp": kp})
    return out


def ctx_of(fl):
    t = fl["trace"]
    return {"alg": "ilp", "vals": t["vals"], "k": t["k"], "o": t["o"], "kp": t["kp"], "copies": t["copies"], "weights": t["w"] if t["wgiven"] else None, "cons": t["cons"], "c": t["c"], "fmt": t.get("fmt"),
            "inject": t["inject"], "out": t["out"], "lists": t["lists"], "sums": t["sums"], "solver": t.get("solver")}


def run(ck):
    q = ck.quick()
    models.ilp_mc(ck, q)
    stim = stimuli(ck.rng, 420 if q else 8000)
    stim += weighted_family(ck.rng, 600 if q else 4000)
    # the pinned examples
    stim += [{"vals": [10, 1], "k": 2, "o": "minsum", "kp": 0, "copies": [1, 1], "copies_scalar": True, "w": [10, 1], "cons": "none", "c": 0, "inject": ""},
             {"vals": [3, 3], "k": 2, "o": "minsum", "kp": 0, "copies": [1, 1], "copies_scalar": True, "w": [1, 2], "cons": "none", "c": 0, "inject": ""},
             {"vals": [11, 11, 11, 11, 22], "k": 2, "o": "minsum", "kp": 0, "copies": [1] * 5, "copies_scalar": True, "w": None, "cons": "smallest_eq", "c": 0, "inject": ""}]
    # solver statuses other than OPTIMAL, injected through the optimize wrapper: must raise ValueError
    base = stimuli(ck.rng, 12 if q else 120)
    for i, st in enumerate(base):
        for s in (STATUSES if i < 3 or not q else STATUSES[:3]):
            st2 = dict(st); st2["inject"] = s; stim.append(st2)
    # equal weights never change the result: the same request with weights [w]*k (judged like any other: same optimum, ascending sums)
    for st in stimuli(ck.rng, 30 if q else 400):
        if not st["w"] and st["cons"] == "none":
            st2 = dict(st); st2["w"] = [ck.rng.choice([2, 3, 5])] * st["k"]; stim.append(st2); ck.cat("equal_weights_twin")
    for kf in ck.known:      # every known finding's witness is re-executed on every run
        w = kf.get("witness")
        if kf.get("status") == "known" and w and w.get("kind") == "ilp":
            stim.append({x: w[x] for x in w if x != "kind"})
    traces = core.pmap(drive.run_ilp, stim)
    keep = []
    for t in traces:
        ck.evaluations += 1
        if t["out"] == "timeout":
            ck.timeouts += 1; continue
        keep.append(t)
        ck.cat("cons:" + t["cons"]); ck.cat("out:" + t["out"].split(":")[0])
        if t["wgiven"]:
            ck.cat("with_weights" + ("_unequal" if len(set(t["w"])) > 1 else "_equal"))
        if t["inject"]:
            ck.cat("injected_status")
        if len(t["vals"]) >= 2 and t["k"] >= 2:
            ck.nontrivial.add(json_key([t[x] for x in ("vals", "k", "o", "kp", "copies", "w", "wgiven", "cons", "c", "inject", "fmt")]))
    ck.sample({x: keep[3][x] for x in ("vals", "k", "o", "copies", "w", "cons", "c", "out", "lists", "sums")})
    ck.sample({x: keep[-1][x] for x in ("vals", "k", "o", "copies", "w", "cons", "c", "inject", "out")})
    ck.rule = ("seeded requests to the ILP partitioner: values <=200, 1-5 items, 1-4 bins (plus 6-8 items with unequal small weights, where weighted objectives differ by fractions), copies as one number or per item (0/1/2), weight vectors from {1,2,3,10}, the three additional-"
               "constraint forms with feasible and infeasible constants, all five objectives, and every non-OPTIMAL solver status injected through a wrapper of mip.Model.optimize; TLC "
               "enumerates every assignment of the item copies to the bins (ReachU) and judges copies, ascending order / bin-weight correspondence, the constraint, optimality under the "
               "MIP's ordering (S2) and over all assignments (S1), and refusal. non-trivial = distinct request with >=2 items and >=2 bins")
    fails = ck.judge("JIlp", keep, {"C17"}, what="C17 ILP options", chunk=400, count_events=lambda t: 1)
    # solver-inconsistency rule: an optimality rejection is re-solved once with preprocessing off
    # (any rejected un-injected answer is re-solved: an answer that violates the model the code built - wrong copies, broken constraint - with
    #  status OPTIMAL is the solver's inconsistency if it disappears without preprocessing, and a violation if it persists)
    retry = [fl for fl in fails if not fl["trace"]["inject"] and not fl["c"].startswith("C17.S1.")]
    rest = [fl for fl in fails if fl not in retry]
    if retry:
        st2 = []
        for fl in retry:
            s = {x: fl["trace"][x] for x in ("vals", "k", "o", "kp", "copies", "cons", "c", "fmt")}
            s["w"] = fl["trace"]["w"] if fl["trace"]["wgiven"] else None
            s["copies_scalar"] = bool(fl["trace"].get("cps")); s["inject"] = ""; s["nopre"] = 1
            st2.append(s)
        t2 = core.pmap(drive.run_ilp, st2)
        f2 = ck.judge("JIlp", t2, {"C17"}, what="C17 re-solve without preprocessing", chunk=400, count_events=lambda t: 1)
        ck.cat("solver_inconsistency", len({json_key(fl["trace"]["vals"]) + json_key(fl["trace"]["copies"]) for fl in retry}) - len({id(f["trace"]) for f in f2 if not f["c"].startswith("C17.S1.")}))
        rest += f2
    ck.classify(rest, ctx_of)
    ck.assumptions += ["the MIP solver returns what it claims (its answer is judged, not its search); rejected optimality answers are re-solved once with preprocessing off",
                       "TLC / SANY / CommunityModules; ground truth by exhaustive enumeration of assignments in TLA+ (at most 8 item copies)",
                       "reading of 'optimal over those weighted sums': S2 (the order-constrained problem the MIP states) decides VIOLATION; S1 (all assignments) is reported separately"]


def json_key(x):
    import json
    return json.dumps(x)


if __name__ == "__main__":
    import sys
    core.run_check(run, "C17", sys.argv[1:])
