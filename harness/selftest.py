"""
bin/selftest: demonstrates the binding between the specification and the recorded executions (not a registered check).
For every judge it takes executions of the real code that the judge ACCEPTS, corrupts ONE recorded field (a sum, an item id, a bin, a digest,
a yielded subset ...) or DROPS one event, and requires the judge to REJECT the corrupted trace - so an accepted trace is accepted because of what it
says, not because the judge is permissive.  Prints one line per experiment; exit 0 iff every corruption was rejected and every original accepted.
"""
import copy, json, os, shutil, sys
from . import core, drive, tlc
from .props.common import call, pcall, sw_dict

JB = "CONSTANTS Slots = {1, 2, 3} Items = {1, 2, 3, 100, 101} MaxBins = 12\n"


def experiments():
    ex = []
    # JPart: C01 / C02 / C06 / C08 / C12 / C14
    t = drive.run_part_group({"vals": [7, 5, 5, 3, 2, 2], "k": 3, "calls": [call("greedy", "dict"), call("dp", "dict", o="maxsum"), call("kk", "dict"), call("roundrobin", "dict")]})
    def c_id(t):
        t["res"][0]["lists"][0][0], t["res"][0]["lists"][1][0] = t["res"][0]["lists"][1][0], t["res"][0]["lists"][1][0]   # one item duplicated, one lost
    def c_sum(t):
        t["res"][0]["sums"][0] += 1
    def c_move(t):
        x = t["res"][1]["lists"][0].pop(); t["res"][1]["lists"][1].append(x)                                              # dp result made sub-optimal
    def c_rr(t):
        t["res"][3]["lists"][0], t["res"][3]["lists"][2] = t["res"][3]["lists"][2], t["res"][3]["lists"][0]
        t["res"][3]["sums"][0], t["res"][3]["sums"][2] = t["res"][3]["sums"][2], t["res"][3]["sums"][0]
    ex += [("JPart", {"C01"}, t, c_id, "an item id duplicated / lost", ""), ("JPart", {"C06"}, t, c_sum, "a reported sum off by one", ""),
           ("JPart", {"C02"}, t, c_move, "an item moved to another bin (no longer optimal)", ""), ("JPart", {"C08", "C14"}, t, c_rr, "round-robin bins swapped (sums no longer non-increasing)", "")]
    # JPack: C03 / C09 / C14
    p = drive.run_pack_group({"vals": [4, 3, 3, 2, 2, 1], "C": 6, "calls": [pcall("ff", "list"), pcall("tt", "list", extra=False)]})
    def c_pack(t):
        x = t["res"][0]["lists"][-1].pop(); t["res"][0]["lists"][0].append(x); t["res"][0]["sums"][0] += 0
    def c_cov(t):
        t["res"][1]["lists"][0] = t["res"][1]["lists"][0][:-1]
    ex += [("JPack", {"C03", "C09", "C14"}, p, c_pack, "an item moved into the first bin (overfull / not first-fit)", ""), ("JPack", {"C05", "C14"}, p, c_cov, "an item removed from a covered bin", "")]
    # JBinner: C16
    ops = [dict(op="new", a=1, b=0, i=0, j=0, n=2, it=0), dict(op="add", a=1, b=0, i=1, j=0, n=0, it=2), dict(op="copy", a=1, b=2, i=0, j=0, n=0, it=0),
           dict(op="add", a=2, b=0, i=2, j=0, n=0, it=3), dict(op="sort", a=2, b=0, i=0, j=0, n=0, it=0)]
    b = drive.run_binner_hist({"ops": ops, "mgr": "contents", "ns": 3})
    def c_drop(t):
        del t["ops"][3]
    def c_alias(t):
        t["ops"][3]["st"][0]["bins"][1]["c"].append(3); t["ops"][3]["st"][0]["bins"][1]["s"] += 3       # the add through the copy also shows in the original
    ex += [("JBinner", {"C16"}, b, c_drop, "one operation event dropped from the history", JB), ("JBinner", {"C16"}, b, c_alias, "the copy's add also visible in the original (aliasing)", JB)]
    # JAnytime: C11
    a = drive.run_anytime({"alg": "cg", "vals": [4, 3, 3, 2], "k": 2, "o": "diff", "sw": sw_dict("0000"), "swc": "0000"})
    def c_cut(t):
        i = max(j for j, c in enumerate(t["cuts"]) if c["out"] == "ret")
        t["cuts"][i] = {"out": "none", "lists": [], "sums": [], "lists_end": []}
    ex += [("JAnytime", {"C11"}, a, c_cut, "a later cut point reports no solution after an earlier one had one", "")]
    # JObj: C20
    o = drive.run_obj({"s": [3, 1, 2], "wlist": [[1, 2, 3]]})
    def c_obj(t):
        t["res"][0]["num"] += 1
    ex += [("JObj", {"C20"}, o, c_obj, "an objective value off by one", "")]
    # J13: C13
    tr = drive.run_tree({"vals": [3, 2, 2, 0], "lb": 4, "ub": 8})
    def c_tree(t):
        t["yields"].pop()
    ex += [("J13", {"C13"}, tr, c_tree, "one yielded sub-collection removed", "")]
    # JIlp: C17
    il = drive.run_ilp({"vals": [5, 4, 3], "k": 2, "o": "minsum", "kp": 0, "copies": [1, 2, 1], "copies_scalar": False, "w": None, "cons": "none", "c": 0, "inject": "", "fmt": "dict"})
    def c_ilp(t):
        t["lists"][1].pop()
    ex += [("JIlp", {"C17"}, il, c_ilp, "one copy of an item removed from the result", "")]
    # JMeta: C18
    m = drive.run_meta_group({"base": {"vals": [5, 4, 3], "k": 2}, "events": [dict(alg="greedy", kind="part", var="base", f=1, vals=[5, 4, 3], k=2),
                                                                              dict(alg="greedy", kind="part", var="scale", f=3, vals=[15, 12, 9], k=2)]})
    def c_meta(t):
        t["events"][1]["sums"][0] += 1
    ex += [("JMeta", {"C18"}, m, c_meta, "a scaled sum off by one", "")]
    # JScan: C19 request histories
    sc = drive.run_scan({"vals": [9, 1, 1, 1], "Cs": [12, 10, 8, 7], "alg": "bc", "fmt": "list", "ot": "Sums"})
    def c_scan(t):
        t["events"][2]["out"] = "ret"          # the oversize request (bin size 8 < 9) recorded as answered
    def c_scan2(t):
        t["events"][3]["out"] = "raise:IndexError"
    ex += [("JScan", {"C19"}, sc, c_scan, "an oversize request recorded as answered after satisfiable ones", ""),
           ("JScan", {"C19"}, sc, c_scan2, "an oversize request recorded as failing with another exception", "")]
    # common-factor presentation: the library sees values x 1e8 as an int32 array, the judge the small numbers
    g = drive.run_pack_group({"vals": [16, 12, 12, 7, 7], "C": 30, "mul": 10 ** 8, "orc": 0, "calls": [pcall("tq", "list", extra=False), pcall("tq", "int32array", extra=False)]})
    def c_g(t):
        t["res"][1]["sums"][0] -= 1
    ex += [("JPack", {"C07"}, g, c_g, "a sum of the int32-array presentation off by one unit of the common factor", "")]
    return ex


def main():
    os.environ["VERIF_EVIDENCE_DIR"] = tlc.scratch_dir("prtpy-selftest-ev-")
    ck = core.Check("C00", "quick")
    bad = 0
    try:
        for module, active, trace, corrupt, what, extra in experiments():
            orig = copy.deepcopy(trace)
            mut = copy.deepcopy(trace)
            corrupt(mut)
            f0 = [f for f in ck.judge(module, [orig], active, extra_consts=extra) if not f["c"].startswith("DRIFT.")]
            f1 = [f for f in ck.judge(module, [mut], active, extra_consts=extra) if not f["c"].startswith("DRIFT.")]
            ok = (not f0) and bool(f1)
            bad += 0 if ok else 1
            print("%-8s %-22s original %s, corrupted (%s) %s%s" % (module, ",".join(sorted(active)), "accepted" if not f0 else "REJECTED " + f0[0]["c"], what,
                                                                   "rejected: " + f1[0]["c"] if f1 else "ACCEPTED", "" if ok else "   <== BINDING FAILURE"))
        # JSession separately (needs digests)
        ev = [{"c": 1, "ret": "aa", "fresh": "aa", "fresh2": "aa", "before": "x", "after": "x", "obj": "D", "amb0": "m", "amb1": "m"}, {"c": 2, "ret": "bb", "fresh": "bb", "fresh2": "bb", "before": "y", "after": "y", "obj": "D", "amb0": "m", "amb1": "m"}]
        ev2 = copy.deepcopy(ev); ev2[1]["ret"] = "cc"
        f0 = ck.judge("JSession", [{"events": ev}], {"C15"}); f1 = ck.judge("JSession", [{"events": ev2}], {"C15"})
        ok = (not f0) and bool(f1); bad += 0 if ok else 1
        print("%-8s %-22s original %s, corrupted (a return differing from the fresh-interpreter return) %s" % ("JSession", "C15", "accepted" if not f0 else "REJECTED", "rejected: " + f1[0]["c"] if f1 else "ACCEPTED"))
    finally:
        shutil.rmtree(ck.scratch, ignore_errors=True)
        shutil.rmtree(os.environ["VERIF_EVIDENCE_DIR"], ignore_errors=True)
    print("selftest: %s" % ("every corruption rejected, every original accepted" if bad == 0 else "%d BINDING FAILURES" % bad))
    return 0 if bad == 0 else 1


if __name__ == "__main__":
    sys.exit(main())
