"""
C15: the menu of calls, the canonical form of a call's answer, and the runners
  fresh(i)      the answer of menu call i in THIS interpreter (meant to be run in a fresh subprocess)
  run_seq(seq)  the answers of a sequence of menu calls made one after the other in this process
Nothing is decided here; digests are compared by TLC (JSession.tla).
"""
import hashlib, json, os, sys, copy

def _drive():
    from . import drive
    return drive


def build_menu():
    """deterministic list of call descriptors"""
    M = []
    def part(alg, vals, k, fmt="list", ot="Partition", **kw):
        M.append(dict(kind="part", alg=alg, vals=vals, k=k, fmt=fmt, ot=ot, kw=kw))
    def pack(alg, vals, C, fmt="list", ot="Partition", **kw):
        M.append(dict(kind="pack", alg=alg, vals=vals, C=C, fmt=fmt, ot=ot, kw=kw))
    A = [4, 5, 6, 7, 8]; B = [1, 2, 3, 3, 5, 9, 9]; Z = [0, 3, 0, 2, 2]; W = [46, 39, 27, 26, 16, 13, 10]
    part("greedy", B, 3); part("greedy", A, 2, "dict", "Sums"); part("roundrobin", B, 3, "valueof"); part("multifit", B, 3, "array", "Sums")
    part("kk", B, 4, "dict"); part("kk", W, 3, "list", "PartitionAndSumsTuple"); part("ckk", B, 3, "dict"); part("ckk", W, 2, "list", "Sums")
    part("snp", B, 3, "dict"); part("snp", W, 4, "list", "Difference"); part("rnp", B, 4, "dict"); part("rnp", W, 3); part("rnp", W, 5, "list", "Sums")
    part("cg", B, 3, "dict", o="diff"); part("cg", Z, 2, "list", "Sums", o="maxsum"); part("cg", W, 3, "array", o="minsum"); part("cg", A, 2, "valueof", "LargestSum", o="maxsum", sw="1111")
    part("dp", B, 2, "dict"); part("dp", B, 3, "list", "SortedSums", o="minsum"); part("dp", A, 2, "array", "Partition", o="klargest", kp=1)
    part("cbldm", B, 2, "dict"); part("cbldm", W, 2, "list", "Sums", d=1); part("cbldm", Z, 2, "valueof")
    part("ilp", A, 2, "list", "Sums", o="diff"); part("ilp", [18, 12, 22, 22], 2, "dict", "Partition", o="minsum"); part("ilp", A, 3, "list", "SortedSums", o="maxsum")
    # calls that must fail
    part("cbldm", B, 3, "list"); part("cbldm", [3, -1, 2], 2, "list"); part("cbldm", B, 2, "list", d=0); part("rnp", [3, 1, 2, 7, 9, 11, 5, 4], 6, "list")
    part("ilp", A, 2, "list", "Sums", o="diff", infeasible=1)
    E = [44, 24, 24, 22, 21, 17, 8, 8, 6, 6]
    pack("ff", E, 60); pack("ffd", E, 60, "dict"); pack("bf", [4, 7, 2, 1, 5, 8, 4], 9, "list", "Sums"); pack("bfd", E, 61, "valueof", "BinCount")
    pack("bc", [19, 14, 4, 14, 24, 17, 20, 15, 20], 50, "list"); pack("bc", E, 60, "dict", "BinCount"); pack("bc", [30, 30, 30, 30, 40, 40], 100, "array", "Sums")
    pack("dec", E, 60, "dict"); pack("tt", [1, 2, 3, 4, 5, 6, 7, 8, 9, 10], 10, "list"); pack("tq", [994, 501, 501, 499, 499, 499, 499] + 12 * [1], 1000, "list", "Sums")
    pack("tq", E, 60, "dict"); pack("tt", E, 60, "valueof", "BinCount")
    pack("ff", [3, 70, 2], 60, "list"); pack("bfd", [3, 70, 2], 60, "dict"); pack("bc", [3, 70, 2], 60, "list", "BinCount")
    # the same input with ONE argument changed - what a cache keyed too coarsely would confuse
    X = [10, 26, 26, 20]; Y = [29, 22, 19, 18, 17, 10, 1]
    pack("bc", X, 29); pack("bc", X, 36); pack("bc", Y, 29); pack("bc", Y, 58); pack("bc", [19, 14, 4, 14, 24, 17, 20, 15, 20], 49)
    pack("bfd", X, 29); pack("bfd", X, 36); pack("ffd", Y, 29); pack("ffd", Y, 58, "dict"); pack("ff", Y, 41)
    pack("dec", Y, 30); pack("dec", Y, 45); pack("tt", Y, 30); pack("tt", Y, 45); pack("tq", Y, 30); pack("tq", Y, 45, "dict")
    part("snp", W, 3); part("snp", W, 5); part("rnp", W, 4); part("ckk", W, 3); part("ckk", W, 4, "dict"); part("kk", W, 2); part("kk", W, 5)
    part("cg", W, 2, "list", "Partition", o="minsum"); part("cg", W, 3, "list", "Partition", o="maxsum"); part("cg", W, 3, "list", "Partition", o="diff", sw="0010")
    part("dp", W, 2, "list", "Partition", o="maxsum"); part("dp", W, 3, "list", "Sums", o="maxsum"); part("greedy", W, 2); part("greedy", W, 4, "dict")
    part("multifit", W, 3, "list", "Partition", it=2); part("multifit", W, 3, "list", "Partition", it=10); part("cbldm", W, 2, "list", "Partition", d=1); part("cbldm", W, 2, "list", "Partition", d=3)
    # failing calls in every presentation whose values overlap those of later successful calls (what a failed call may leave behind)
    pack("bc", [26, 70, 10], 36, "dict"); pack("bc", [10, 26, 99, 20], 36, "valueof"); pack("bfd", [26, 70, 10], 36, "dict"); pack("ff", [29, 22, 90], 58, "valueof")
    pack("bc", X, 36, "dict"); pack("bc", X, 36, "valueof"); pack("bc", Y, 58, "dict")
    part("cbldm", W + [-5], 2, "dict"); part("cbldm", W, 2, "dict", "Partition", d=0); part("ilp", W[:4], 2, "dict", "Sums", o="diff", infeasible=1)
    # the same NAMES with different values (dict inputs of equal length share their keys) - what a cache keyed by item names would confuse
    W2 = [10, 46, 13, 39, 16, 27, 26]; W3 = [5, 5, 5, 9, 1, 30, 2]
    for alg in ("snp", "rnp", "ckk", "kk", "greedy", "multifit", "cg", "dp"):
        kw = {"o": "diff"} if alg in ("cg", "dp") else {}
        part(alg, W, 3, "dict", "PartitionAndSumsTuple", **kw); part(alg, W2, 3, "dict", "PartitionAndSumsTuple", **kw); part(alg, W3, 3, "dict", "Sums", **kw)
    part("snp", W[:4], 2, "dict"); part("snp", W3[:4], 2, "dict"); part("cbldm", W, 2, "dict"); part("cbldm", W3, 2, "dict")
    Y2 = [10, 29, 17, 1, 22, 18, 19]
    for alg in ("ff", "bfd", "bc", "tq", "dec"):
        pack(alg, Y, 40, "dict", "PartitionAndSumsTuple"); pack(alg, Y2, 40, "dict", "PartitionAndSumsTuple")
    # optional list arguments of the ILP partitioner (they are inputs too: the caller's lists must come back unchanged)
    part("ilp", A, 2, "list", "Sums", o="minsum", weights=[10, 2]); part("ilp", A, 2, "list", "Sums", o="minsum", weights=[2, 2])
    part("ilp", [7, 7, 5, 3, 2], 3, "dict", "Partition", o="maxsum", weights=[6, 3, 3]); part("ilp", [4, 5, 6], 2, "list", "Sums", o="diff", copies=[2, 1, 1])
    # COLLISIONS: different inputs that agree on what a coarse cache key might be made of - the total, the number of items, the number of bins -
    # and on which the first (greedy) leaf of a search is not optimal, so that a stale bound or incumbent from an earlier call shows
    A7 = [5, 5, 4, 4, 3, 3, 3]; B3 = [10, 9, 8]; C7 = [9, 6, 5, 3, 2, 1, 1]          # all total 27; A7 and C7 have 7 items
    for alg, kw in (("cg", {"o": "maxsum"}), ("cg", {"o": "diff"}), ("dp", {"o": "maxsum"}), ("ckk", {}), ("snp", {})):
        for inst in (A7, B3, C7):
            for k in (2, 3):
                part(alg, inst, k, "list", "Sums", **kw)
    for alg in ("bc", "tq"):
        for inst in ([7, 6, 5, 4, 3, 2], [9, 9, 9], A7):                             # total 27, bin size 10
            pack(alg, inst, 10, "list", "PartitionAndSumsTuple")
    # numpy arrays of a NARROW integer type whose sums pass the range of the type (uint8 / uint16): whatever the adaptors do about such arrays, they must do
    # it on every call, not only on the first array of that type an interpreter sees
    U = [200, 100, 90, 60, 30]; V = [30000, 20000, 15000, 9000, 41000]
    part("dp", U, 2, "narrowarray", "Sums", o="diff"); part("greedy", U, 2, "narrowarray", "Sums"); part("multifit", U, 3, "narrowarray", "Sums"); part("snp", U, 3, "narrowarray", "Sums")
    part("dp", V, 2, "narrowarray", "Sums", o="maxsum"); part("kk", V, 3, "narrowarray", "Sums"); part("cg", V, 2, "narrowarray", "Partition", o="diff")
    pack("bc", U, 255, "narrowarray", "Sums"); pack("ffd", U, 255, "narrowarray", "Sums"); pack("tq", U, 250, "narrowarray", "Sums"); pack("bfd", V, 65000, "narrowarray", "BinCount"); pack("dec", V, 50000, "narrowarray", "Sums")
    # CALLER-OWNED OBJECTS: calls that name an object (obj=...) are made with ONE container per name and history - a dict / a list / a value table that the
    # caller overwrites before each call and passes again (re-planning after an update is everyday use).  The answer must be that of a fresh container.
    for alg in ("greedy", "roundrobin", "kk", "multifit", "ckk", "snp", "dp", "cg"):
        kw = {"o": "diff"} if alg in ("cg", "dp") else {}
        part(alg, W, 3, "dict", "Sums", obj="D", **kw); part(alg, W2, 3, "dict", "Sums", obj="D", **kw); part(alg, W3, 3, "dict", "PartitionAndSumsTuple", obj="D", **kw)
    part("greedy", W, 3, "valueof", "Sums", obj="T"); part("greedy", W2, 3, "valueof", "Sums", obj="T"); part("kk", W3, 3, "valueof", "Partition", obj="T")
    part("greedy", W, 3, "list", "Sums", obj="L"); part("greedy", W2, 3, "list", "Sums", obj="L"); part("snp", W3, 3, "list", "Sums", obj="L")
    for alg in ("ff", "ffd", "bf", "bfd", "bc", "dec", "tt", "tq"):
        pack(alg, Y, 40, "dict", "Sums", obj="D"); pack(alg, Y2, 40, "dict", "PartitionAndSumsTuple", obj="D"); pack(alg, W3, 40, "dict", "Sums", obj="D")
    pack("ffd", Y, 40, "valueof", "Sums", obj="T"); pack("ffd", Y2, 40, "valueof", "Sums", obj="T"); pack("tq", Y, 40, "list", "Sums", obj="L"); pack("tq", Y2, 40, "list", "Sums", obj="L")
    return M


def _canon(x):
    import numpy as np
    if isinstance(x, (np.floating, float)):
        return ["f", repr(float(x))]
    if isinstance(x, (np.integer, int)) and not isinstance(x, bool):
        return ["i", int(x)]
    if isinstance(x, (str, np.str_)):
        return ["s", str(x)]
    if isinstance(x, np.ndarray):
        return ["arr", [_canon(v) for v in x.tolist()]]
    if isinstance(x, (list, tuple)):
        return ["seq", [_canon(v) for v in x]]
    if isinstance(x, dict):
        return ["dict", [[_canon(k), _canon(v)] for k, v in x.items()]]
    if hasattr(x, "sums") and hasattr(x, "lists"):
        return ["struct", _canon(x.sums), _canon(x.lists)]
    if x is None:
        return ["none"]
    return ["obj", type(x).__name__]


def digest(x):
    s = json.dumps(_canon(x), sort_keys=False)
    return hashlib.sha1(s.encode()).hexdigest()[:16], s


def ambient():
    """digest of the interpreter-wide settings that later prtpy calls DEPEND on: the recursion limit (cbldm recurses once per item and documents the limit as
    its size bound) and numpy's floating-point / integer error handling (np.seterr(over="raise") turns a tolerated overflow into an exception).
    A call that leaves them changed has changed the result of some later call.  (The warnings filters are left out on purpose: lazy imports of third-party
    modules may legitimately add one the first time they run.)"""
    import sys
    import numpy as np
    return digest(["amb", sys.getrecursionlimit(), sorted(np.geterr().items())])[0]


def call(desc, store=None):
    """perform one menu call; returns (ret_digest, ret_text, before_digest, after_digest).  store: the caller's containers of this history, by name"""
    d = _drive()
    import prtpy
    vals = list(desc["vals"])
    items, valueof, back = d.present(vals, desc["fmt"])
    table = None
    if desc["fmt"] == "valueof":
        table = dict((n, valueof(n)) for n in items)
        valueof = table.__getitem__
    if desc["kw"].get("obj") and store is not None:
        # the caller's own container: same object as in earlier calls of this history, contents overwritten now
        key = (desc["kw"]["obj"], desc["fmt"])
        if desc["fmt"] == "dict":
            own = store.setdefault(key, {})
            own.clear(); own.update(items); items = own
        elif desc["fmt"] == "list":
            own = store.setdefault(key, [])
            own[:] = items; items = own
        elif desc["fmt"] == "valueof":
            own = store.setdefault(key, {"table": {}, "names": []})
            own["table"].clear(); own["table"].update(table); own["names"][:] = items
            table = own["table"]; items = own["names"]
            valueof = own.setdefault("fn", table.__getitem__)      # the very same function object every time
    kw = dict(desc["kw"])
    kw.pop("obj", None)
    # every list the call is given belongs to "the inputs": the items, the value table, and the optional per-bin weights / per-item copies of the ILP
    extra = {}
    if "weights" in kw:
        extra["weights"] = list(kw["weights"])
    if "copies" in kw:
        extra["copies"] = list(kw["copies"]) if isinstance(kw["copies"], list) else kw["copies"]
    before = digest([items, table, extra])[0]
    try:
        if desc["kind"] == "part":
            st = dict(alg=desc["alg"], o=kw.get("o", "diff"), kp=kw.get("kp", 0), d=kw.get("d", 0), it=kw.get("it", -1))
            if "sw" in kw:
                from .props.common import sw_dict
                st["sw"] = sw_dict(kw["sw"])
            if "d" not in kw:
                st["d_default"] = True
            pk = d.part_kwargs(st)
            if "d" in kw:
                pk["partition_difference"] = kw["d"]
            if "it" in kw:
                pk["iterations"] = kw["it"]
            if kw.get("infeasible"):
                pk["additional_constraints"] = lambda sums: [sums[0] == 1]
            pk.update(extra)      # the very list objects whose digest was taken
            ret = prtpy.partition(algorithm=d.PART_ALGS[desc["alg"]](), numbins=desc["k"], items=items, valueof=valueof if desc["fmt"] == "valueof" else None,
                                  outputtype=d.OUTTYPES[desc["ot"]], **pk)
        else:
            ret = prtpy.pack(algorithm=d.pack_alg(desc["alg"]), binsize=desc["C"], items=items, valueof=valueof if desc["fmt"] == "valueof" else None,
                             outputtype=d.OUTTYPES[desc["ot"]])
        rd, rt = digest(["ret", ret])
    except Exception as e:
        rd, rt = digest(["raise", type(e).__name__, str(e)])
    after = digest([items, table, extra])[0]
    return rd, rt, before, after


def run_seq(seq):
    M = build_menu()
    evs = []
    store = {}
    for c in seq:
        amb0 = ambient()
        rd, rt, b, a = call(M[c - 1], store)
        evs.append({"c": c, "ret": rd, "text": rt[:160], "before": b, "after": a, "obj": M[c - 1]["kw"].get("obj", ""), "amb0": amb0, "amb1": ambient()})
    return evs


if __name__ == "__main__":
    # fresh-interpreter mode:  python -m harness.session fresh <i>
    if sys.argv[1] == "fresh":
        i = int(sys.argv[2])
        rd, rt, b, a = call(build_menu()[i - 1], {})
        print(json.dumps({"c": i, "ret": rd, "text": rt[:160], "before": b, "after": a, "obj": "", "amb0": "", "amb1": ""}))
    elif sys.argv[1] == "size":
        print(len(build_menu()))
