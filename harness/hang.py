"""
One SIGALRM discipline for the whole harness (there is a single real-time timer per process).

* outer guard  (core.pmap, around every stimulus): HANG_T seconds (quick) / 12 x HANG_T (thorough); firing raises StimulusTimeout.
* inner watchdog (drive, around a single call of the library): `arm(seconds)` ... `arm(0)`.
    - thorough tier: firing raises Watchdog - the call is recorded as "timeout" and left unjudged (large seeded instances may legitimately be slow);
    - quick tier (ESCALATE): every stimulus of a clean tree answers in well under a second, so the first firing only re-arms the timer for
      HANG_T more seconds and lets the call run on; a second firing raises StimulusTimeout.
  StimulusTimeout is a BaseException (the drivers' `except Exception` does not swallow it); core.pmap turns it into a confirmed-alone re-run and,
  if the call is silent again, into the violation `<id>.no_answer_within_<T>s`.
"""
import os, signal, time


class StimulusTimeout(BaseException):
    pass


class Watchdog(Exception):
    pass


HANG_T = float(os.environ.get("VERIF_STIMULUS_TIMEOUT", "300"))
ESCALATE = [False]          # set by core.Check for the quick tier
OUTER_T = [HANG_T]          # outer guard per stimulus; the thorough tier uses 12 x HANG_T (a group of many calls, several of them stopped
                            # by their inner watchdogs, may legitimately take minutes there)
_outer = [None]             # deadline of the outer guard, or None
_inner = [None]             # deadline of the inner watchdog, or None
_stage2 = [False]


def _set_timer():
    ds = [d for d in (_outer[0], _inner[0]) if d is not None]
    if not ds:
        signal.setitimer(signal.ITIMER_REAL, 0)
    else:
        signal.setitimer(signal.ITIMER_REAL, max(0.001, min(ds) - time.time()))


def _handler(signum, frame):
    now = time.time()
    if _inner[0] is not None and now >= _inner[0] - 0.0005:
        if ESCALATE[0] and not _stage2[0]:
            _stage2[0] = True
            _inner[0] = now + HANG_T
            _set_timer()
            return
        _inner[0] = None
        _stage2[0] = False
        _set_timer()
        if ESCALATE[0]:
            raise StimulusTimeout()
        raise Watchdog()
    if _outer[0] is not None and now >= _outer[0] - 0.0005:
        _outer[0] = None
        _inner[0] = None
        _set_timer()
        raise StimulusTimeout()
    _set_timer()            # spurious / early wake-up: re-arm what is pending


def install():
    signal.signal(signal.SIGALRM, _handler)


def arm(seconds):
    """inner watchdog: arm(seconds) before a call of the library, arm(0) after it"""
    _stage2[0] = False
    _inner[0] = (time.time() + seconds) if seconds else None
    _set_timer()


def outer_begin(seconds=None):
    install()
    _inner[0] = None
    _stage2[0] = False
    _outer[0] = time.time() + (seconds or HANG_T)
    _set_timer()


def outer_end():
    _outer[0] = None
    _inner[0] = None
    _set_timer()
