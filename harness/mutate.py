"""
bin/mutscore: mechanical mutation analysis of the checks (development helper, not a registered check).

Generates first-order mutants of the library source (comparison boundaries, arithmetic operators, small constants, boolean
connectives, negated conditions, min/max, sort direction, deleted calls, break/continue), keeps the ones the repository's own test-suite
does not notice, and runs the quick checks that own the mutated file against each survivor in a scratch copy of the package
(PRTPY_REPO), so /repo is never touched.  Output: one line per mutant and a JSON table; undetected survivors are the reading list
for equivalent-mutant triage / scope growth (DESIGN 13.5).

  python -m harness.mutate gen  <outdir> [N] [seed]     write N sampled mutants (patch + meta) under <outdir>
  python -m harness.mutate test <outdir> [jobs]         run the repository's tests on every mutant -> survivors
  python -m harness.mutate run  <outdir> [jobs]         run the owning quick checks on every survivor
"""
import ast, difflib, json, os, random, shutil, subprocess, sys, tempfile
from concurrent.futures import ThreadPoolExecutor

REPO = os.environ.get("PRTPY_REPO_SRC", "/repo")
VERIF = os.path.dirname(os.path.dirname(os.path.abspath(__file__)))

# file -> checks that own it (first = most likely to notice); from the properties' anchors and DESIGN 7
OWNERS = {
    "prtpy/binners.py": ["C16", "C13", "C01", "C06", "C11", "C15"],
    "prtpy/objectives.py": ["C20", "C13", "C02", "C17"],
    "prtpy/outputtypes.py": ["C06", "C01", "C03", "C07"],
    "prtpy/inclusion_exclusion_tree.py": ["C13", "C02"],
    "prtpy/partitioning/adaptors.py": ["C07", "C01", "C06", "C15"],
    "prtpy/packing/adaptors.py": ["C07", "C03", "C05", "C19", "C15"],
    "prtpy/partitioning/cbldm.py": ["C12", "C19", "C11", "C01", "C06"],
    "prtpy/partitioning/complete_greedy.py": ["C02", "C11", "C01", "C18"],
    "prtpy/partitioning/complete_karmarkar_karp_sy.py": ["C02", "C11", "C01", "C18"],
    "prtpy/partitioning/dynamic_programming.py": ["C02", "C01", "C06", "C18"],
    "prtpy/partitioning/greedy.py": ["C14", "C08", "C01"],
    "prtpy/partitioning/integer_programming.py": ["C17", "C02", "C01"],
    "prtpy/partitioning/karmarkar_karp_sy.py": ["C08", "C02", "C01", "C18"],
    "prtpy/partitioning/multifit.py": ["C08", "C01", "C18"],
    "prtpy/partitioning/recursive_number_partitioning_sy.py": ["C02", "C01", "C18"],
    "prtpy/partitioning/roundrobin.py": ["C14", "C08", "C01"],
    "prtpy/partitioning/sequential_number_partitioning_sy.py": ["C02", "C01", "C18"],
    "prtpy/packing/best_fit.py": ["C14", "C09", "C03", "C19"],
    "prtpy/packing/first_fit.py": ["C14", "C09", "C03", "C19", "C08"],
    "prtpy/packing/bin_completion.py": ["C04", "C03", "C19", "C15", "C07"],
    "prtpy/packing/bin_completion_utils.py": ["C04", "C13", "C03"],
    "prtpy/packing/cflz_covering.py": ["C05", "C10", "C14", "C07"],
    "prtpy/packing/greedy_covering.py": ["C05", "C10", "C14"],
}

CMP = {ast.Lt: ("<", ["<="]), ast.LtE: ("<=", ["<"]), ast.Gt: (">", [">="]), ast.GtE: (">=", [">"]),
       ast.Eq: ("==", ["!="]), ast.NotEq: ("!=", ["=="])}
BIN = {ast.Add: ("+", ["-"]), ast.Sub: ("-", ["+"]), ast.Mult: ("*", ["//"]), ast.FloorDiv: ("//", ["/"]), ast.Div: ("/", ["//", "*"])}
AUG = {ast.Add: ("+=", "-="), ast.Sub: ("-=", "+=")}
SWAP_NAMES = {"min": "max", "max": "min", "any": "all", "all": "any", "ceil": "floor", "floor": "ceil"}
SKIP_CALLS = {"print", "info", "debug", "warning", "error", "log", "format", "isEnabledFor", "getLogger", "addHandler", "setLevel"}


class Finder(ast.NodeVisitor):
    def __init__(self, src):
        self.src = src
        self.lines = src.split("\n")
        self.offs = [0]
        for ln in self.lines:
            self.offs.append(self.offs[-1] + len(ln) + 1)
        self.out = []          # (start, end, replacement, description, lineno)
        self.skip_depth = 0

    def pos(self, lineno, col):
        # ast columns are UTF-8 byte offsets; the sources are ASCII apart from comments/docstrings on other lines
        line = self.lines[lineno - 1]
        return self.offs[lineno - 1] + len(line.encode("utf8")[:col].decode("utf8"))

    def span(self, node):
        return self.pos(node.lineno, node.col_offset), self.pos(node.end_lineno, node.end_col_offset)

    def add(self, start, end, rep, desc, lineno):
        self.out.append((start, end, rep, desc, lineno))

    def between(self, a_end, b_start, tok, reps, what, lineno):
        seg = self.src[a_end:b_start]
        i = seg.find(tok)
        if i < 0 or seg.count(tok) != 1:
            return
        for r in reps:
            self.add(a_end + i, a_end + i + len(tok), r, "%s: %s -> %s" % (what, tok, r), lineno)

    # ---- scoping: skip logging, __main__ blocks, doctest strings, type annotations
    def visit_If(self, node):
        t = node.test
        if isinstance(t, ast.Compare) and isinstance(t.left, ast.Name) and t.left.id == "__name__":
            return
        s, e = self.span(node.test)
        self.add(s, e, "not (" + self.src[s:e] + ")", "negate if-condition", node.lineno)
        self.generic_visit(node)

    def visit_While(self, node):
        self.generic_visit(node)

    def visit_Expr(self, node):
        v = node.value
        if isinstance(v, ast.Constant) and isinstance(v.value, str):
            return                                   # docstring
        if isinstance(v, ast.Call):
            name = v.func.attr if isinstance(v.func, ast.Attribute) else getattr(v.func, "id", "")
            if name in SKIP_CALLS:
                return
            s, e = self.span(node)
            if node.lineno == node.end_lineno:
                self.add(s, e, "pass", "delete call statement %s" % self.src[s:e][:50], node.lineno)
        self.generic_visit(node)

    def visit_Call(self, node):
        name = node.func.attr if isinstance(node.func, ast.Attribute) else getattr(node.func, "id", "")
        if name in SKIP_CALLS:
            return
        if isinstance(node.func, ast.Name) and name in SWAP_NAMES:
            s, e = self.span(node.func)
            self.add(s, e, SWAP_NAMES[name], "call %s -> %s" % (name, SWAP_NAMES[name]), node.lineno)
        if isinstance(node.func, ast.Attribute) and name in ("ceil", "floor"):
            s, e = self.span(node.func)
            txt = self.src[s:e]
            self.add(s, e, txt[:-len(name)] + SWAP_NAMES[name], "call %s -> %s" % (name, SWAP_NAMES[name]), node.lineno)
        # "shallow instead of deep copy": drop a copy
        if name in ("copy_bins", "copy", "list", "sorted_copy") and len(node.args) == 1 and not node.keywords and name != "copy":
            cs, ce = self.span(node)
            as_, ae = self.span(node.args[0])
            if not isinstance(node.args[0], (ast.GeneratorExp, ast.ListComp, ast.Call)) or name == "copy_bins":
                self.add(cs, ce, "(" + self.src[as_:ae] + ")", "drop %s(...)" % name, node.lineno)
        if isinstance(node.func, ast.Attribute) and name == "copy" and not node.args:
            cs, ce = self.span(node)
            vs, ve = self.span(node.func.value)
            self.add(cs, ce, "(" + self.src[vs:ve] + ")", "drop .copy()", node.lineno)
        # off-by-one in a loop bound: range(stop) -> range(stop - 1), range(a, stop) -> range(a, stop - 1)
        if isinstance(node.func, ast.Name) and name == "range" and 1 <= len(node.args) <= 2:
            st = node.args[-1]
            ss, se = self.span(st)
            self.add(ss, se, "(" + self.src[ss:se] + ") - 1", "range stop - 1", node.lineno)
            self.add(ss, se, "(" + self.src[ss:se] + ") + 1", "range stop + 1", node.lineno)
        if name in ("deepcopy",):
            s, e = self.span(node.func)
            a0 = node.args[0] if node.args else None
            if a0 is not None and len(node.args) == 1:
                cs, ce = self.span(node)
                as_, ae = self.span(a0)
                self.add(cs, ce, "(" + self.src[as_:ae] + ")", "drop deepcopy", node.lineno)
        self.generic_visit(node)

    def visit_Compare(self, node):
        if len(node.ops) == 1 and type(node.ops[0]) in CMP:
            tok, reps = CMP[type(node.ops[0])]
            _, a_end = self.span(node.left)
            b_start, _ = self.span(node.comparators[0])
            self.between(a_end, b_start, tok, reps, "comparison", node.lineno)
        self.generic_visit(node)

    def visit_BinOp(self, node):
        if type(node.op) in BIN:
            tok, reps = BIN[type(node.op)]
            _, a_end = self.span(node.left)
            b_start, _ = self.span(node.right)
            if not (isinstance(node.left, ast.Constant) and isinstance(node.left.value, str)):
                self.between(a_end, b_start, tok, reps, "arithmetic", node.lineno)
        self.generic_visit(node)

    def visit_AugAssign(self, node):
        if node.lineno == node.end_lineno:
            s, e = self.span(node)
            self.add(s, e, "pass", "delete statement %s" % self.src[s:e][:50], node.lineno)
        if type(node.op) in AUG:
            tok, rep = AUG[type(node.op)]
            _, a_end = self.span(node.target)
            b_start, _ = self.span(node.value)
            self.between(a_end, b_start, tok, [rep], "augmented assignment", node.lineno)
        self.generic_visit(node)

    def visit_BoolOp(self, node):
        tok = "and" if isinstance(node.op, ast.And) else "or"
        rep = "or" if tok == "and" else "and"
        for a, b in zip(node.values, node.values[1:]):
            _, a_end = self.span(a)
            b_start, _ = self.span(b)
            seg = self.src[a_end:b_start]
            import re
            m = list(re.finditer(r"\b%s\b" % tok, seg))
            if len(m) == 1:
                self.add(a_end + m[0].start(), a_end + m[0].end(), rep, "connective: %s -> %s" % (tok, rep), node.lineno)
        self.generic_visit(node)

    def visit_UnaryOp(self, node):
        if isinstance(node.op, ast.USub) and isinstance(node.operand, ast.Constant) and node.operand.value == 1:
            s, e = self.span(node)
            self.add(s, e, "0", "constant -1 -> 0", node.lineno)       # last element -> first element
        if isinstance(node.op, ast.Not):
            s, e = self.span(node)
            os_, oe = self.span(node.operand)
            self.add(s, e, "(" + self.src[os_:oe] + ")", "drop not", node.lineno)
        self.generic_visit(node)

    def visit_Constant(self, node):
        v = node.value
        s, e = self.span(node)
        if isinstance(v, bool):
            self.add(s, e, str(not v), "constant %s -> %s" % (v, not v), node.lineno)
        elif isinstance(v, int) and 0 <= v <= 4 and self.src[s:e].isdigit():
            for r in sorted({v + 1, v - 1} - {v}):
                self.add(s, e, "(%d)" % r if r < 0 else str(r), "constant %d -> %d" % (v, r), node.lineno)

    def visit_Break(self, node):
        s, e = self.span(node)
        self.add(s, e, "continue", "break -> continue", node.lineno)

    def visit_Continue(self, node):
        s, e = self.span(node)
        self.add(s, e, "break", "continue -> break", node.lineno)

    def visit_Return(self, node):
        self.generic_visit(node)

    def visit_AnnAssign(self, node):
        if node.value is not None:
            self.visit(node.value)

    def visit_FunctionDef(self, node):
        for st in node.body:
            self.visit(st)
        for d in node.args.defaults + [d for d in node.args.kw_defaults if d is not None]:
            self.visit(d)

    visit_AsyncFunctionDef = visit_FunctionDef

    def visit_Subscript(self, node):
        self.visit(node.value)
        self.visit(node.slice)

    def visit_Raise(self, node):
        return

    def visit_Assert(self, node):
        return


def mutants_of(path_rel):
    src = open(os.path.join(REPO, path_rel), encoding="utf8").read()
    f = Finder(src)
    f.visit(ast.parse(src))
    res = []
    for (s, e, rep, desc, lineno) in f.out:
        new = src[:s] + rep + src[e:]
        try:
            ast.parse(new)
        except SyntaxError:
            continue
        diff = "".join(difflib.unified_diff(src.splitlines(True), new.splitlines(True), "a/" + path_rel, "b/" + path_rel, n=2))
        res.append({"file": path_rel, "line": lineno, "op": desc, "diff": diff, "orig_line": src.split("\n")[lineno - 1].strip()[:160]})
    return res


def gen(outdir, n, seed, exclude=None):
    rng = random.Random(seed)
    os.makedirs(outdir, exist_ok=True)
    done = set()
    if exclude:
        for m in json.load(open(os.path.join(exclude, "mutants.json")))["mutants"]:
            done.add((m["file"], m["line"], m["op"]))
    allm = {}
    for f in OWNERS:
        allm[f] = [m for m in mutants_of(f) if (m["file"], m["line"], m["op"]) not in done]
    total = sum(len(v) for v in allm.values())
    chosen = []
    for f, ms in allm.items():
        want = max(3, round(n * len(ms) / total))
        rng.shuffle(ms)
        # spread over lines: at most 2 mutants per source line
        per_line, pick = {}, []
        for m in ms:
            if per_line.get(m["line"], 0) >= 2:
                continue
            per_line[m["line"]] = per_line.get(m["line"], 0) + 1
            pick.append(m)
            if len(pick) >= want:
                break
        chosen += pick
    chosen.sort(key=lambda m: (m["file"], m["line"], m["op"]))
    for i, m in enumerate(chosen):
        m["id"] = "M%03d" % i
        with open(os.path.join(outdir, m["id"] + ".diff"), "w") as fh:
            fh.write(m.pop("diff"))
    json.dump({"candidates": {f: len(v) for f, v in allm.items()}, "mutants": chosen}, open(os.path.join(outdir, "mutants.json"), "w"), indent=1)
    print("mutate: %d candidate mutants in %d files, %d sampled -> %s" % (total, len(allm), len(chosen), outdir))


def _scratch_repo(patch, whole):
    tmp = tempfile.mkdtemp(prefix="prtpy-mut-")
    if whole:
        subprocess.run(["rsync", "-a", "--exclude", ".git", "--exclude", "__pycache__", REPO + "/", tmp + "/"], check=True)
    else:
        shutil.copytree(os.path.join(REPO, "prtpy"), os.path.join(tmp, "prtpy"), ignore=shutil.ignore_patterns("__pycache__"))
    subprocess.run(["git", "init", "-q", "."], cwd=tmp, check=True)
    p = subprocess.run(["git", "apply", patch], cwd=tmp, capture_output=True, text=True)
    if p.returncode != 0:
        shutil.rmtree(tmp, ignore_errors=True)
        raise RuntimeError("patch %s does not apply: %s" % (patch, p.stderr))
    return tmp


def test(outdir, jobs):
    tab = json.load(open(os.path.join(outdir, "mutants.json")))

    def one(m):
        if "tests" in m:
            return m
        tmp = _scratch_repo(os.path.join(outdir, m["id"] + ".diff"), True)
        try:
            p = subprocess.run(["/venv/bin/python", "-m", "pytest", "-q", "-p", "no:cacheprovider", "--timeout=120", "--continue-on-collection-errors"],
                               cwd=tmp, capture_output=True, text=True, timeout=1500)
            import re
            mm = re.findall(r"^=*\s*((?:\d+ \w+,? ?)+) in [\d.]+s", p.stdout, re.M)
            last = mm[-1].strip() if mm else p.stdout.strip().split("\n")[-1][-120:]
        except subprocess.TimeoutExpired:
            last = "TIMEOUT"
        finally:
            shutil.rmtree(tmp, ignore_errors=True)
        m["tests"] = last
        m["survives_tests"] = ("43 passed" in last and "22 failed" in last)
        print(m["id"], m["file"], m["line"], m["op"], "|", last, flush=True)
        return m

    with ThreadPoolExecutor(jobs) as ex:
        tab["mutants"] = list(ex.map(one, tab["mutants"]))
    json.dump(tab, open(os.path.join(outdir, "mutants.json"), "w"), indent=1)
    s = sum(1 for m in tab["mutants"] if m["survives_tests"])
    print("mutate: %d of %d mutants survive the repository's tests" % (s, len(tab["mutants"])))


def run(outdir, jobs):
    tab = json.load(open(os.path.join(outdir, "mutants.json")))

    def one(m):
        if not m.get("survives_tests") or "verdict" in m:
            return m
        tmp = _scratch_repo(os.path.join(outdir, m["id"] + ".diff"), False)
        m["checks"] = []
        m["verdict"] = "undetected"
        try:
            for c in OWNERS[m["file"]]:
                env = dict(os.environ, PRTPY_REPO=tmp, VERIF_EVIDENCE_DIR=os.path.join(tmp, "ev"), VERIF_STIMULUS_TIMEOUT="60")
                try:
                    p = subprocess.run([os.path.join(VERIF, "bin/check"), c, "--tier", "quick"], cwd=VERIF, env=env, capture_output=True, text=True, timeout=2400)
                    rc, outp = p.returncode, p.stdout
                except subprocess.TimeoutExpired:
                    rc, outp = 124, ""
                cls = [l.strip() for l in outp.split("\n") if "violation-class" in l][:2]
                drift = [l for l in outp.split("\n") if l.startswith("DRIFT")]
                m["checks"].append({"check": c, "rc": rc, "classes": cls, "drift": len(drift) > 0,
                                    "tail": outp.strip().split("\n")[-1][-200:] if rc not in (0, 1) else ""})
                if rc == 1:
                    m["verdict"] = "detected by " + c
                    break
                if rc != 0 and m["verdict"] == "undetected":
                    m["verdict"] = "undetected (rc=%d in %s)" % (rc, c)
        finally:
            shutil.rmtree(tmp, ignore_errors=True)
        print(m["id"], m["file"], m["line"], m["op"], "|", m["verdict"], "| drift" if any(x["drift"] for x in m["checks"]) else "", flush=True)
        json.dump(m, open(os.path.join(outdir, m["id"] + ".result.json"), "w"), indent=1)
        return m

    with ThreadPoolExecutor(jobs) as ex:
        tab["mutants"] = list(ex.map(one, tab["mutants"]))
    json.dump(tab, open(os.path.join(outdir, "mutants.json"), "w"), indent=1)
    surv = [m for m in tab["mutants"] if m.get("survives_tests")]
    det = [m for m in surv if m["verdict"].startswith("detected")]
    print("mutate: %d survivors of the tests, %d detected by the checks, %d undetected" % (len(surv), len(det), len(surv) - len(det)))


if __name__ == "__main__":
    cmd, outdir = sys.argv[1], sys.argv[2]
    if cmd == "gen":
        gen(outdir, int(sys.argv[3]) if len(sys.argv) > 3 else 150, int(sys.argv[4]) if len(sys.argv) > 4 else 1, sys.argv[5] if len(sys.argv) > 5 else None)
    elif cmd == "test":
        test(outdir, int(sys.argv[3]) if len(sys.argv) > 3 else 8)
    elif cmd == "run":
        run(outdir, int(sys.argv[3]) if len(sys.argv) > 3 else 2)
