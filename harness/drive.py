"""
Drives the real prtpy (imported from the tree under check) on stimuli and records what it observably did.
No property is decided here: results are normalised (names -> ids, numpy numbers -> exact integers) and
handed to the TLC judges.
"""
import os, sys, signal, math, itertools
from fractions import Fraction

REPO = os.environ.get("PRTPY_REPO", "/repo")
if REPO not in sys.path:
    sys.path.insert(0, REPO)
os.environ.setdefault("PRTPY_VERIF", "1")

import warnings
warnings.filterwarnings("ignore")
import numpy as np
import prtpy
from prtpy import outputtypes as out, objectives as obj

assert os.path.realpath(prtpy.__file__).startswith(os.path.realpath(REPO) + os.sep), \
    "prtpy imported from %s, not from %s" % (prtpy.__file__, REPO)

prt = prtpy.partitioning
from prtpy.partitioning import complete_greedy as _cg_mod, cbldm as _cbldm_mod
from prtpy.partitioning import complete_karmarkar_karp_sy as _ckk_mod
from prtpy.packing import first_fit as _ff_mod, best_fit as _bf_mod, bin_completion as _bc_mod
from prtpy.packing import greedy_covering as _gc_mod, cflz_covering as _cflz_mod


from . import hang
from .hang import Watchdog

hang.install()

PART_ALGS = {
    "greedy": lambda: prt.greedy,
    "roundrobin": lambda: prt.roundrobin,
    "multifit": lambda: prt.multifit,
    "kk": lambda: prt.kk,
    "cg": lambda: prt.complete_greedy,
    "ckk": lambda: prt.ckk,
    "snp": lambda: prt.snp,
    "rnp": lambda: prt.rnp,
    "dp": lambda: prt.dp,
    "ilp": lambda: prt.ilp,
    "cbldm": lambda: prt.cbldm,
}
PACK_ALGS = {
    "ff": lambda: _ff_mod.online,
    "ffd": lambda: _ff_mod.decreasing,
    "bf": lambda: _bf_mod.online,
    "bfd": lambda: _bf_mod.decreasing,
    "bc": lambda: _bc_mod.bin_completion,
}
COVER_ALGS = {
    "dec": lambda: _gc_mod.decreasing,
    "tt": lambda: _cflz_mod.twothirds,
    "tq": lambda: _cflz_mod.threequarters,
}


def objective(o, kp=0, weights=None):
    if o == "diff":
        return obj.MinimizeDifference
    if o == "maxsum":
        return obj.MinimizeLargestSum
    if o == "minsum":
        return obj.MaximizeSmallestSum
    if o == "klargest":
        return obj.MinimizeKLargestSums(kp)
    if o == "ksmallest":
        return obj.MaximizeKSmallestSums(kp)
    if o == "wminsum":
        return obj.MaximizeSmallestWeightedSum(weights)
    raise KeyError(o)


# ------------------------------------------------------------------ formats: how the items are presented
def name_of(i):
    # string names unrelated to values and to id order
    return "i%d_%s" % ((i * 7919) % 1009, "abcdefghij"[i % 10])


def intname_of(i, n):
    return 1000 + ((i * 37) % 101) * 1 + 0 * n + i * 101


def present(vals, fmt, scale=None):
    """returns (items_argument, valueof_or_None, back) where back maps a returned item to an id or 0"""
    n = len(vals)
    vv = [v if scale is None else scale(v) for v in vals]
    if fmt == "list" or fmt == "array":
        items = list(vv) if fmt == "list" else np.array(vv)
        return items, None, None     # ids resolved by value matching
    if fmt in ("int32array", "int64array", "uint32array"):   # a numpy array of a FIXED integer dtype that holds every value; sums of two values may not fit (int32)
        return np.array(vv, dtype={"int32array": np.int32, "int64array": np.int64, "uint32array": np.uint32}[fmt]), None, None
    if fmt in ("npscalars", "npscalardict"):   # a plain LIST (resp. a dict) whose numbers are numpy SCALARS of the narrowest unsigned dtype holding every value:
        m = max(vv) if len(vv) else 0           # python-level sums of such scalars wrap around where python ints do not
        dt = np.uint8 if m < 2 ** 8 else (np.uint16 if m < 2 ** 16 else np.uint32)
        if fmt == "npscalars":
            return [dt(v) for v in vv], None, None
        names = [name_of(i + 1) for i in range(n)]
        return {names[i]: dt(vv[i]) for i in range(n)}, None, {names[i]: i + 1 for i in range(n)}
    if fmt == "narrowarray":         # a numpy array of the narrowest unsigned integer dtype that holds every VALUE (sums may exceed it)
        m = max(vv) if len(vv) else 0
        dt = np.uint8 if m < 2 ** 8 else (np.uint16 if m < 2 ** 16 else np.uint32)
        return np.array(vv, dtype=dt), None, None
    if fmt == "dict":
        names = [name_of(i + 1) for i in range(n)]
        assert len(set(names)) == n
        d = {names[i]: vv[i] for i in range(n)}
        back = {names[i]: i + 1 for i in range(n)}
        return d, None, back
    if fmt == "valueof":
        names = [intname_of(i + 1, n) for i in range(n)]
        assert len(set(names)) == n
        table = {names[i]: vv[i] for i in range(n)}
        back = {names[i]: i + 1 for i in range(n)}
        return names, table.__getitem__, back
    if fmt == "repnames":   # a list of names in which equal-valued items carry the SAME name (repeated items), with a value function
        names = ["n%d" % v for v in vv]
        back = {}
        for i, nm in enumerate(names):
            back.setdefault(nm, []).append(i + 1)
        return names, (lambda nm: int(nm[1:])), back
    if fmt in ("falsydict", "emptystr"):
        # names that are FALSY python objects: the integer 0 / the empty string is the name of the largest item (and, for falsydict, small integers
        # name the others by descending value) - an `if item:` where `if item is not None:` is meant goes wrong exactly here
        order = sorted(range(n), key=lambda i: (-vv[i], i))
        names = [None] * n
        for r, i in enumerate(order):
            names[i] = r if fmt == "falsydict" else ("" if r == 0 else name_of(i + 1))
        d = {names[i]: vv[i] for i in range(n)}
        assert len(d) == n
        back = {names[i]: i + 1 for i in range(n)}
        return d, None, back
    if fmt == "iddict":   # dict keyed by the ids themselves (used when values and names must be told apart cheaply)
        d = {i + 1: vv[i] for i in range(n)}
        return d, None, {i + 1: i + 1 for i in range(n)}
    raise KeyError(fmt)


def lists_to_ids(lists, vals_presented, back):
    """translate returned bins (lists of items) to lists of ids; unknown items become 0, so that TLC rejects them"""
    res = []
    if back is not None:
        pools = {k: list(v) for k, v in back.items() if isinstance(v, list)}
        for b in lists:
            row = []
            for x in b:
                kx = _key(x)
                if kx in pools:
                    row.append(pools[kx].pop(0) if pools[kx] else 0)
                else:
                    row.append(int(back.get(kx, 0)))
            res.append(row)
        return res
    # plain values: match each returned value with the smallest unused id having that value
    pool = {}
    for i, v in enumerate(vals_presented):
        pool.setdefault(_num_key(v), []).append(i + 1)
    for b in lists:
        ids = []
        for x in b:
            q = pool.get(_num_key(x))
            ids.append(q.pop(0) if q else 0)
        res.append(ids)
    return res


def _key(x):
    if isinstance(x, (np.integer,)):
        return int(x)
    if isinstance(x, np.str_):
        return str(x)
    return x


def _num_key(x):
    try:
        return Fraction(x) if not isinstance(x, float) else Fraction(x)
    except Exception:
        try:
            return Fraction(float(x))
        except Exception:
            return ("?", repr(x))


def exact_int(x, den=1):
    """x * den as an exact integer, or None"""
    try:
        if isinstance(x, (bool,)):
            return None
        if isinstance(x, (int, np.integer)):
            f = Fraction(int(x))
        else:
            xf = float(x)
            if math.isnan(xf) or math.isinf(xf):
                return None
            f = Fraction(xf)
        f = f * den
        if f.denominator != 1:
            return None
        v = int(f)
        if abs(v) >= 2 ** 31:
            return None
        return v
    except Exception:
        return None


def norm_sums(sums, den=1):
    outl = []
    exact = True
    try:
        it = list(sums)
    except Exception:
        return [], False
    for s in it:
        v = exact_int(s, den)
        if v is None:
            exact = False
            v = 0
        outl.append(v)
    return outl, exact


def outcome_of_exception(e):
    return "raise:" + type(e).__name__


def empty_result(outc):
    return {"out": outc, "lists": [], "sums": [], "exact": True}


def norm_pst(ret, vals_presented, back, den=1):
    """normalise a (sums, lists) return value"""
    if ret is None:
        return empty_result("none")
    try:
        sums, lists = ret
        lists = [list(b) for b in lists]
        ids = lists_to_ids(lists, vals_presented, back)
        s, exact = norm_sums(sums, den)
        return {"out": "ret", "lists": ids, "sums": s, "exact": exact}
    except Exception as e:
        return empty_result("bad")


# ------------------------------------------------------------------ partition calls
def part_kwargs(st):
    alg = st["alg"]
    kw = {}
    if alg == "cg":
        kw["objective"] = objective(st.get("o", "diff"))
        sw = st.get("sw")
        if sw is not None:
            kw["use_lower_bound"] = bool(sw["lb"])
            kw["use_fast_lower_bound"] = bool(sw["flb"])
            kw["use_heuristic_3"] = bool(sw["h3"])
            kw["use_set_of_seen_states"] = bool(sw["seen"])
    elif alg in ("dp", "ilp"):
        kw["objective"] = objective(st.get("o", "diff"), st.get("kp", 0))
    elif alg == "multifit":
        if st.get("it", -1) >= 0:
            kw["iterations"] = st["it"]
    elif alg == "cbldm":
        d = st.get("d", 0)
        if d and d > 0 and not st.get("d_default", False):
            kw["partition_difference"] = d
    return kw


# ------------------------------------------------------------------ MIP solver wrapper (observation + fault injection, DESIGN 4.1)
import mip as _mip
_ORIG_OPTIMIZE = _mip.Model.optimize
MIP_CTL = {"nopre": False, "inject": None, "last": None}


def _optimize(self, *a, **kw):
    if MIP_CTL["nopre"]:
        self.preprocess = 0
    status = _ORIG_OPTIMIZE(self, *a, **kw)
    MIP_CTL["last"] = {"status": status.name, "x": []}
    try:
        if status.name in ("OPTIMAL", "FEASIBLE"):
            MIP_CTL["last"]["x"] = [v.x for v in self.vars]
    except Exception:
        pass
    if MIP_CTL["inject"]:
        return getattr(_mip.OptimizationStatus, MIP_CTL["inject"])
    return status


_mip.Model.optimize = _optimize


def run_part(st, watchdog=20):
    """st: {alg, vals, k, fmt, o, kp, sw, d, it} -> st + result fields"""
    vals = st["vals"]
    fmt = st.get("fmt", "dict")
    mul = st.get("mul", 1)     # common factor: the library sees vals * mul, the judges see vals (dividing by the factor is exact)
    pden = Fraction(1, mul) if mul != 1 else 1
    pscale = (lambda v: v * mul) if mul != 1 else None
    vp = [v * mul for v in vals]
    items, valueof, back = present(vals, fmt, pscale)
    r = dict(st)
    r.pop("mul", None)
    r.setdefault("o", "diff"); r.setdefault("kp", 0); r.setdefault("d", 0); r.setdefault("it", 0)
    r.setdefault("cfg", "")
    MIP_CTL["nopre"] = bool(st.get("nopre"))
    MIP_CTL["inject"] = st.get("inject") or None
    try:
        hang.arm(watchdog)
        try:
            ret = prtpy.partition(algorithm=PART_ALGS[st["alg"]](), numbins=st["k"], items=items, valueof=valueof,
                                  outputtype=out.PartitionAndSumsTuple, **part_kwargs(st))
        finally:
            hang.arm(0)
        r.update(norm_pst(ret, vp, back, pden))
    except Watchdog:
        r.update(empty_result("timeout"))
    except Exception as e:
        r.update(empty_result(outcome_of_exception(e)))
    r["ots"] = []
    if st.get("allot"):
        def callfn(it, vo, ot):
            hang.arm(watchdog)
            try:
                return prtpy.partition(algorithm=PART_ALGS[st["alg"]](), numbins=st["k"], items=it, valueof=vo, outputtype=ot, **part_kwargs(st))
            finally:
                hang.arm(0)
        r["ots"] = all_outputs(callfn, vp, lambda: present(vals, fmt, pscale), pden)
    r.pop("sw", None)
    return r


def run_part_group(g):
    """g: {vals, k, calls:[stimulus without vals/k]} -> trace {vals, k, res:[...]}"""
    res = []
    for c in g["calls"]:
        st = dict(c)
        st["vals"] = g["vals"]
        st["k"] = g["k"]
        if g.get("mul", 1) != 1:
            st["mul"] = g["mul"]
        r = run_part(st, g.get("watchdog", 20))
        r.pop("vals", None); r.pop("k", None)
        res.append(r)
    return {"vals": g["vals"], "k": g["k"], "mul": g.get("mul", 1), "res": res}


def run_wit_group(g):
    """g: {vals, k, o, kp, calls (all under objective o, kp)} -> the trace of run_part_group plus a WITNESS partition for that objective, found by the
    harness's own exhaustive search (textbook.best_partition); TLC checks the witness itself (JWit)"""
    from .textbook import best_partition
    t = run_part_group(g)
    t["o"], t["kp"] = g["o"], g["kp"]
    t["wit"] = best_partition(g["vals"], g["k"], g["o"], g["kp"])[1]
    return t


# ------------------------------------------------------------------ packing / covering calls
OUTTYPES = {
    "Sums": out.Sums, "LargestSum": out.LargestSum, "SmallestSum": out.SmallestSum, "ExtremeSums": out.ExtremeSums,
    "SortedSums": out.SortedSums, "Difference": out.Difference, "BinCount": out.BinCount, "Partition": out.Partition,
    "PartitionAndSumsTuple": out.PartitionAndSumsTuple, "PartitionAndSums": out.PartitionAndSums,
}


def pack_alg(name):
    if name in PACK_ALGS:
        return PACK_ALGS[name]()
    return COVER_ALGS[name]()


def _pack_call(alg, C, den, items, valueof, ot, watchdog):
    hang.arm(watchdog)
    try:
        # den: 1, a power of two (values are numerators over den), or Fraction(1, g) (values are presented multiplied by the common factor g: the
        # problem is the same up to the unit, the judges see the small numbers, the library sees magnitudes beyond 2^31)
        binsize = C if den == 1 else (int(C / den) if isinstance(den, Fraction) else C / den)
        return prtpy.pack(algorithm=pack_alg(alg), binsize=binsize, items=items, valueof=valueof, outputtype=ot)
    finally:
        hang.arm(0)


def run_pack(st, watchdog=20):
    """st: {alg, vals, C, den, fmt, extra: bool} -> result record.  Values are numerators over den (a power of two)."""
    vals, C, den = st["vals"], st["C"], st.get("den", 1)
    fmt = st.get("fmt", "dict")
    if st.get("mul", 1) != 1:
        den = Fraction(1, st["mul"])
    scale = (lambda v: v) if den == 1 else ((lambda v: int(v / den)) if isinstance(den, Fraction) else (lambda v: v / den))
    r = dict(st)
    r.pop("vals", None); r.pop("C", None); r.pop("den", None); r.pop("mul", None)
    r.update({"bc": -1, "bcout": "skip", "so": [], "soout": "skip", "soexact": True})
    try:
        items, valueof, back = present(vals, fmt, scale if den != 1 else None)
        ret = _pack_call(st["alg"], C, den, items, valueof, out.PartitionAndSumsTuple, watchdog)
        vp = [scale(v) for v in vals]
        r.update(norm_pst(ret, vp, back, den))
    except Watchdog:
        r.update(empty_result("timeout"))
    except Exception as e:
        r.update(empty_result(outcome_of_exception(e)))
    r["ots"] = []
    if st.get("allot"):
        r["ots"] = all_outputs(lambda it, vo, ot: _pack_call(st["alg"], C, den, it, vo, ot, watchdog), [scale(v) for v in vals],
                               lambda: present(vals, fmt, scale if den != 1 else None), den)
    if st.get("extra", True):
        try:
            items, valueof, back = present(vals, fmt, scale if den != 1 else None)
            bc = _pack_call(st["alg"], C, den, items, valueof, out.BinCount, watchdog)
            r["bc"] = int(bc) if isinstance(bc, (int, np.integer)) and not isinstance(bc, bool) else -1
            r["bcout"] = "ret"
        except Watchdog:
            r["bcout"] = "timeout"
        except Exception as e:
            r["bcout"] = outcome_of_exception(e)
        try:
            items, valueof, back = present(vals, fmt, scale if den != 1 else None)
            so = _pack_call(st["alg"], C, den, items, valueof, out.Sums, watchdog)
            r["so"], r["soexact"] = norm_sums(so, den)
            r["soout"] = "ret"
        except Watchdog:
            r["soout"] = "timeout"
        except Exception as e:
            r["soout"] = outcome_of_exception(e)
    return r


def run_pack_group(g):
    """g: {vals, C, den, calls:[{alg, fmt, ...}]} -> trace {vals, C, den, res:[...]}"""
    res = []
    for c in g["calls"]:
        st = dict(c)
        st["vals"] = g["vals"]; st["C"] = g["C"]; st["den"] = g.get("den", 1); st["mul"] = g.get("mul", 1)
        res.append(run_pack(st, g.get("watchdog", 20)))
    t = {"vals": g["vals"], "C": g["C"], "den": g.get("den", 1), "mul": g.get("mul", 1), "orc": g.get("orc", 1), "res": res}
    for extra in ("cert", "fam", "opt", "wit"):
        if extra in g:
            t[extra] = g[extra]
    return t


# ------------------------------------------------------------------ every output type of one call (C06, C19)
def norm_output(tname, ret, vals_presented, back, den=1):
    """normalise the value returned for output type tname to {t, out, v (ints), l (lists of ids), exact}"""
    x = {"t": tname, "out": "ret", "v": [], "l": [], "exact": True}
    try:
        if tname in ("Sums", "SortedSums"):
            x["v"], x["exact"] = norm_sums(ret, den)
        elif tname in ("LargestSum", "SmallestSum", "Difference"):
            x["v"], x["exact"] = norm_sums([ret], den)
        elif tname == "ExtremeSums":
            x["v"], x["exact"] = norm_sums(list(ret), den)
            if len(x["v"]) != 2:
                x["exact"] = False
        elif tname == "BinCount":
            ok = isinstance(ret, (int, np.integer)) and not isinstance(ret, bool)
            x["v"], x["exact"] = ([int(ret)], True) if ok else ([0], False)
        elif tname == "Partition":
            x["l"] = lists_to_ids([list(b) for b in ret], vals_presented, back)
        elif tname == "PartitionAndSumsTuple":
            sums, lists = ret
            x["v"], x["exact"] = norm_sums(sums, den)
            x["l"] = lists_to_ids([list(b) for b in lists], vals_presented, back)
        elif tname == "PartitionAndSums":
            x["v"], x["exact"] = norm_sums(ret.sums, den)
            x["l"] = lists_to_ids([list(b) for b in ret.lists], vals_presented, back)
    except Exception as e:
        x["out"] = "bad"
    return x


ALL_OT = ["Sums", "SortedSums", "LargestSum", "SmallestSum", "ExtremeSums", "Difference", "BinCount", "Partition", "PartitionAndSums", "PartitionAndSumsTuple"]


def all_outputs(callfn, vals_presented, mk_present, den=1):
    """callfn(items, valueof, outputtype) -> return value.  A fresh presentation is built for every call."""
    res = []
    for t in ALL_OT:
        items, valueof, back = mk_present()
        try:
            ret = callfn(items, valueof, OUTTYPES[t])
            res.append(norm_output(t, ret, vals_presented, back, den))
        except Watchdog:
            res.append({"t": t, "out": "timeout", "v": [], "l": [], "exact": True})
        except Exception as e:
            res.append({"t": t, "out": outcome_of_exception(e), "v": [], "l": [], "exact": True})
    return res


# ------------------------------------------------------------------ C19: refusals
def run_refuse(st):
    """st: {vals, kind, arg} (from RefuseGen) -> trace of cbldm calls in list / dict / valueof presentation + numitems probes"""
    vals = list(st["vals"])
    kind, arg = st["kind"], st["arg"]
    k, kw = 2, {}

    def num(a):
        """the invalid value in the numeric type named by its prefix"""
        if ":" in a:
            typ, txt = a.split(":", 1)
            if typ == "np64":
                return np.float64(float(txt))
            if typ == "np32":
                return np.float32(float(txt))
            if typ == "npi":
                return np.int64(int(txt))
            if typ == "frac":
                return Fraction(txt)
        return float(a) if "." in a else int(a)
    if kind == "k":
        k = num(arg)
    elif kind == "neg":
        idx = {"first": [0], "last": [len(vals) - 1], "all": list(range(len(vals)))}[arg]
        for i in idx:
            vals[i] = -(vals[i] + 1)
    elif kind == "limit":
        kw["time_limit"] = num(arg)
    elif kind == "bound":
        kw["partition_difference"] = num(arg)
    res = []
    for fmt in ("list", "dict", "valueof", "array"):
        for ot in ("PartitionAndSumsTuple", "Sums"):
            items, valueof, back = present(vals, fmt)
            try:
                hang.arm(20)
                try:
                    prtpy.partition(algorithm=prt.cbldm, numbins=k, items=items, valueof=valueof, outputtype=OUTTYPES[ot], **kw)
                finally:
                    hang.arm(0)
                o = "ret"
            except Watchdog:
                o = "timeout"
            except Exception as e:
                o = outcome_of_exception(e)
            res.append({"what": "cbldm", "kind": kind, "arg": arg, "fmt": fmt, "ot": ot, "out": o, "n": 0, "expect": 0})
    # the sums-only manager refuses to count items; the contents manager counts them
    for what, B in (("numitems_sums", prtpy.BinnerKeepingSums), ("numitems_contents", prtpy.BinnerKeepingContents)):
        b = B()
        bins = b.new_bins(2)
        for v in st["vals"]:
            b.add_item_to_bin(bins, v, 1)
        try:
            n = b.numitems(bins, 1)
            ok = isinstance(n, (int, np.integer)) and not isinstance(n, bool)
            res.append({"what": what, "kind": "-", "arg": "-", "fmt": "-", "ot": "-", "out": "ret", "n": int(n) if ok else -1, "expect": len(st["vals"])})
        except Exception as e:
            res.append({"what": what, "kind": "-", "arg": "-", "fmt": "-", "ot": "-", "out": outcome_of_exception(e), "n": 0, "expect": len(st["vals"])})
    return {"vals": st["vals"], "res": res}


def run_scan(st):
    """st: {vals, Cs, alg, fmt, ot} -> a REQUEST HISTORY: the same items packed with a sequence of bin sizes, one call after the other in this process
    (a caller scanning capacities).  Events [C, out]; judged stepwise by JScan.tla."""
    evs = []
    for C in st["Cs"]:
        items, valueof, back = present(st["vals"], st["fmt"])
        try:
            _pack_call(st["alg"], C, 1, items, valueof, OUTTYPES[st["ot"]], 20)
            o = "ret"
        except Watchdog:
            o = "timeout"
        except Exception as e:
            o = outcome_of_exception(e)
        evs.append({"C": C, "out": o})
    return {"vals": st["vals"], "alg": st["alg"], "fmt": st["fmt"], "ot": st["ot"], "events": evs}


# ------------------------------------------------------------------ C20: objectives
def _rat(f, maxden):
    """exact rational num/den (den <= maxden) whose float is f, else (0, 0)"""
    try:
        if isinstance(f, bool):
            return 0, 0
        if isinstance(f, (int, np.integer)):
            return int(f), 1
        ff = float(f)
        if math.isnan(ff) or math.isinf(ff):
            return 0, 0
        fr = Fraction(ff)
        if fr.denominator == 1:
            return int(fr), 1
        c = fr.limit_denominator(maxden)
        if float(c) == ff and abs(c.numerator) < 2 ** 31:
            return c.numerator, c.denominator
        return 0, 0
    except Exception:
        return 0, 0


def run_obj(st):
    """st: {s: [...], wlist: [[w..],..]} -> evaluations of every objective on s as list / tuple / ndarray, slow and (when sorted) fast path"""
    s = st["s"]
    n = len(s)
    issorted = all(s[i] <= s[i + 1] for i in range(n - 1))
    conts = {"list": list, "tuple": tuple, "ndarray": lambda x: np.array(x), "floatarray": lambda x: np.array(x, dtype=float)}
    res = []
    for cname, mk in conts.items():
        for o in ("diff", "maxsum", "minsum", "klargest", "ksmallest"):
            for kp in (range(1, n + 3) if o in ("klargest", "ksmallest") else [0]):
                for flag in ((0, 1) if issorted else (0,)):
                    ev = {"o": o, "kp": kp, "w": [], "cont": cname, "sorted": flag, "out": "ret", "num": 0, "den": 0}
                    try:
                        c = mk(s)
                        v = objective(o, kp).value_to_minimize(c, are_sums_in_ascending_order=bool(flag)) if flag else objective(o, kp).value_to_minimize(c)
                        ev["num"], ev["den"] = _rat(v, 1)
                        if [x for x in c] != list(s):
                            # the caller's sums were reordered / changed: the next objective evaluated on the same sums no longer sees the vector it was given
                            ev["out"] = "bad:the_sums_given_were_modified_by_the_call"
                    except Exception as e:
                        ev["out"] = outcome_of_exception(e)
                    res.append(ev)
        for w in st.get("wlist", []):
            ev = {"o": "wminsum", "kp": 0, "w": list(w), "cont": cname, "sorted": 0, "out": "ret", "num": 0, "den": 0}
            try:
                c = mk(s)
                v = obj.MaximizeSmallestWeightedSum(list(w)).value_to_minimize(c)
                ev["num"], ev["den"] = _rat(v, max(w))
                if [x for x in c] != list(s):
                    ev["out"] = "bad:the_sums_given_were_modified_by_the_call"
            except Exception as e:
                ev["out"] = outcome_of_exception(e)
            res.append(ev)
    return {"s": s, "res": res}


# ------------------------------------------------------------------ C13: bounds and enumerators (documented extension points)
from prtpy.inclusion_exclusion_tree import InExclusionBinTree


def run_bound(st):
    """st: {s (ascending), R} -> lower_bound of the three objectives: sorted flag on/off, list/tuple/array, and permuted input with flag off"""
    s, R = st["s"], st["R"]
    res = []
    perms = [list(s)]
    if len(s) > 1:
        perms.append(list(reversed(s)))
        perms.append(s[1:] + s[:1])
    conts = {"list": list, "tuple": tuple, "ndarray": lambda x: np.array(x, dtype=float)}
    for o, kp in (("minsum", 0), ("maxsum", 0), ("diff", 0), ("klargest", 1), ("klargest", 2), ("ksmallest", 1), ("ksmallest", 2)):
        ob = objective(o, kp) if kp else objective(o)
        for cname, mk in conts.items():
            for flag, p in [(1, perms[0])] + [(0, p) for p in perms]:
                # the k-sum objectives inherit the trivial bound (minus infinity, recorded as ninf); if one of them ever gets a bound of its own it must be admissible too
                ev = {"o": o, "kp": kp, "ninf": 0, "flag": flag, "cont": cname, "p": p, "out": "ret", "v": 0, "exact": True}
                try:
                    c = mk(p)
                    v = ob.lower_bound(c, R, are_sums_in_ascending_order=bool(flag))
                    if [x for x in c] != list(p):
                        ev["out"] = "bad:the_sums_given_were_modified_by_the_call"
                    iv = exact_int(v)
                    if kp and isinstance(v, (float, np.floating)) and v == -np.inf:
                        ev["ninf"] = 1
                    elif iv is None:
                        ev["exact"] = False
                    else:
                        ev["v"] = iv
                except Exception as e:
                    ev["out"] = outcome_of_exception(e)
                res.append(ev)
    return {"kind": "bound", "s": s, "R": R, "res": res}


def run_tree(st):
    """st: {vals, lb (in halves), ub (in halves)} -> yields of the inclusion/exclusion tree over items = ids"""
    vals = st["vals"]
    ids = list(range(1, len(vals) + 1))
    t = {"kind": "tree", "vals": vals, "lb2": st["lb"], "ub2": st["ub"], "out": "ret", "yields": []}
    try:
        tree = InExclusionBinTree(items=ids, valueof=lambda i: vals[i - 1], lower_bound=st["lb"] / 2, upper_bound=st["ub"] / 2)
        for y in tree.generate_tree():
            t["yields"].append([int(i) for i in y])
            if len(t["yields"]) > 4096:
                t["out"] = "bad"
                break
    except Exception as e:
        t["out"] = outcome_of_exception(e)
    return t


def run_comb(st):
    c1, c2 = st["c1"], st["c2"]
    s1 = [sum(b) for b in c1]; s2 = [sum(b) for b in c2]
    res = []
    ev = {"mgr": "sums", "out": "ret", "ys": []}
    try:
        b = prtpy.BinnerKeepingSums()
        for y in b.all_combinations(np.array(s1, dtype=float), np.array(s2, dtype=float)):
            sv, ex = norm_sums(y)
            if not ex:
                ev["out"] = "bad"
            ev["ys"].append({"s": sv, "c": []})
    except Exception as e:
        ev["out"] = outcome_of_exception(e)
    res.append(ev)
    ev = {"mgr": "contents", "out": "ret", "ys": []}
    try:
        b = prtpy.BinnerKeepingContents()
        a1 = (np.array(s1, dtype=float), [list(x) for x in c1]); a2 = (np.array(s2, dtype=float), [list(x) for x in c2])
        for y in b.all_combinations(a1, a2):
            sv, ex = norm_sums(y[0])
            if not ex:
                ev["out"] = "bad"
            ev["ys"].append({"s": sv, "c": [[int(v) for v in bn] for bn in y[1]]})
        # arguments documented as inputs must be untouched
        if [list(x) for x in a1[1]] != [list(x) for x in c1] or [list(x) for x in a2[1]] != [list(x) for x in c2] or list(a1[0]) != s1 or list(a2[0]) != s2:
            ev["out"] = "bad:arguments_modified"
    except Exception as e:
        ev["out"] = outcome_of_exception(e)
    res.append(ev)
    return {"kind": "comb", "c1": c1, "c2": c2, "res": res}


# ------------------------------------------------------------------ C16: bins-manager histories
def _ITEMVAL(it):
    if it == 999:
        raise KeyError(it)      # an item the value function does not know: additions of it must be rejected without any effect
    if it == 101:
        return 16777217         # 2^24 + 1: exact in float64, not in float32
    return 0 if it >= 100 else it


def _proj(binner, arr, contents, scale=1):
    sums = binner.sums(arr)
    nb = binner.numbins(arr)
    outl = []
    for i in range(nb):
        s = exact_int(sums[i] / scale)      # scale is a power of two: the division is exact
        c = [int(x) for x in arr[1][i]] if contents else []
        if contents and binner.numitems(arr, i) != len(c):
            s = None
        outl.append({"s": -999999 if s is None else s, "c": c})
    # the raw array must not hold more (or fewer) content lists than sums: an operation that grows an argument's list component in place
    # is invisible through numbins() / sums() but has altered the argument all the same
    if contents:
        try:
            extra = len(arr[1]) - nb
        except Exception:
            extra = 0
        if extra != 0:
            outl.append({"s": -999999, "c": []})
    return outl


def run_binner_hist(st):
    """st: {ops: [{op,a,b,i,j,n,it}], mgr, ns}: replays a TLC-generated history on a real bins-manager, recording the projected state of every
    live array after every operation and, for handed-over arguments, what the old handle shows right after the call"""
    contents = st["mgr"] == "contents"
    # "tiny" histories: every item is worth its model value times 2^-40 (exact in float64); the projection scales back, so the model is unchanged.
    # Sums of such items differ by far less than 1e-9: a rounded or tolerance-based comparison inside the manager shows here and nowhere else.
    scale = 2.0 ** -40 if st.get("tiny") else 1
    B = (prtpy.BinnerKeepingContents if contents else prtpy.BinnerKeepingSums)(_ITEMVAL if scale == 1 else (lambda it: _ITEMVAL(it) * scale))
    _p = _proj
    _proj_s = lambda b, a, c: _p(b, a, c, scale)
    ns = st.get("ns", 3)
    live = {}
    evs = []
    for op in st["ops"]:
        ev = dict(op); ev["out"] = "ret"; ev["args"] = []
        a, b = op["a"], op["b"]
        try:
            o = op["op"]
            if o == "new":
                live[a] = B.new_bins(op["n"])
            elif o == "add":
                ret = B.add_item_to_bin(live[a], op["it"], op["i"] - 1)
                if ret is not live[a]:
                    live[a] = ret     # documented: returns the bins after the addition
            elif o == "addbad":
                try:
                    B.add_item_to_bin(live[a], 999, op["i"] - 1)
                    ev["out"] = "bad:item_without_value_accepted"
                except KeyError:
                    pass
            elif o == "copy":
                live[b] = B.copy_bins(live[a])
            elif o == "sort":
                B.sort_by_ascending_sum(live[a])
            elif o == "addempty":
                old = live[a]
                live[a] = B.add_empty_bins(old, op["n"])
                ev["args"] = [{"slot": a, "bins": _proj_s(B, old, contents)}]
            elif o == "remove":
                old = live[a]
                live[a] = B.remove_bins(old, op["n"])
                ev["args"] = [{"slot": a, "bins": _proj_s(B, old, contents)}]
            elif o == "concat":
                o1, o2 = live[a], live[b]
                live[a] = B.concatenate_bins(o1, o2)
                del live[b]
                ev["args"] = [{"slot": a, "bins": _proj_s(B, o1, contents)}, {"slot": b, "bins": _proj_s(B, o2, contents)}]
            elif o == "combine":
                B.combine_bins(live[a], op["i"] - 1, live[b], op["j"] - 1)
        except Exception as e:
            ev["out"] = outcome_of_exception(e)
        try:
            ev["st"] = [{"live": 1 if s in live else 0, "bins": _proj_s(B, live[s], contents) if s in live else []} for s in range(1, ns + 1)]
        except Exception as e:
            ev["out"] = "bad:projection:" + type(e).__name__
            ev["st"] = [{"live": 0, "bins": []} for s in range(1, ns + 1)]
        evs.append(ev)
        if ev["out"] != "ret":
            break
    return {"mgr": st["mgr"], "ns": ns, "ops": evs, "tiny": 1 if st.get("tiny") else 0}


# ------------------------------------------------------------------ C11: anytime algorithms under a counting clock
class CountingClock:
    """Deterministic clock: the n-th reading returns n (0, 1, 2, ...).  Installed as the `time` attribute of the algorithm modules,
    which call time.perf_counter() through that attribute (no source change)."""
    def __init__(self):
        self.n = -1

    def perf_counter(self):
        self.n += 1
        return float(self.n)


def _pst_ids(bins):
    """normalise a (sums, lists) bins-array whose items are ids"""
    if bins is None:
        return {"out": "none", "lists": [], "sums": [], "lists_end": []}
    try:
        sums, lists = bins
        ss = [exact_int(x) for x in sums]
        if any(x is None for x in ss):
            # CBLDM's documented no-solution placeholder ([0, inf], [0, inf])
            if len(sums) == 2 and sums[0] == 0 and sums[1] == np.inf:
                return {"out": "none", "lists": [], "sums": [], "lists_end": []}
            return {"out": "bad", "lists": [], "sums": [], "lists_end": []}
        ll = [[int(i) for i in b] for b in lists]
        return {"out": "ret", "lists": ll, "sums": ss, "lists_end": ll}
    except Exception:
        return {"out": "bad", "lists": [], "sums": [], "lists_end": []}


def run_anytime(st):
    """st: {alg in cg|cbldm|ckkgen, vals, k, o, sw, d}: the result for every cut point c = 1..R (limit fires at the c-th reading) and the unlimited run"""
    vals, k = st["vals"], st["k"]
    ids = list(range(1, len(vals) + 1))
    valueof = lambda i: vals[i - 1]
    alg = st["alg"]
    t = {"alg": alg, "vals": vals, "k": k, "o": st.get("o", "diff"), "d": st.get("d", len(vals)), "cfg": st.get("swc", ""), "cuts": []}
    import time as _real_time

    def one(limit):
        clock = CountingClock()
        mods = (_cg_mod, _cbldm_mod)
        saved = [m.time for m in mods]
        for m in mods:
            m.time = clock
        try:
            hang.arm(20)
            try:
                B = prtpy.BinnerKeepingContents(valueof)
                if alg == "cg":
                    sw = st["sw"]
                    ret = _cg_mod.anytime(B, k, ids, objective=objective(st["o"]), use_lower_bound=sw["lb"], use_fast_lower_bound=sw["flb"],
                                          use_heuristic_3=sw["h3"], use_set_of_seen_states=sw["seen"], time_limit=limit)
                else:
                    kw = {} if st.get("d_default") else {"partition_difference": st["d"]}
                    ret = _cbldm_mod.cbldm(B, 2, ids, time_limit=limit, **kw)
            finally:
                hang.arm(0)
            r = _pst_ids(ret)
        except Watchdog:
            r = {"out": "timeout", "lists": [], "sums": [], "lists_end": []}
        except Exception as e:
            r = {"out": outcome_of_exception(e), "lists": [], "sums": [], "lists_end": []}
        finally:
            for m, s in zip(mods, saved):
                m.time = s
        return r, clock.n

    if alg in ("cg", "cbldm"):
        final, readings = one(np.inf)
        R = readings            # readings 1..R are the limit tests (reading 0 is the start time)
        t["R"] = R
        for c in ([] if st.get("final_only") else range(1, R + 1)):
            r, _ = one(c - 0.5)
            t["cuts"].append(r)
        t["cuts"].append(final)
    else:   # the CKK generator: every yield, snapshotted at yield time and looked at again at the end
        B = prtpy.BinnerKeepingContents(valueof)
        ys = []
        try:
            hang.arm(20)
            try:
                for y in _ckk_mod.generator(B, k, ids):
                    ys.append((y, _pst_ids((np.array(y[0]), [list(b) for b in y[1]]))))
            finally:
                hang.arm(0)
            for y, snap in ys:
                end = _pst_ids(y)
                snap["lists_end"] = end["lists"] if end["out"] == "ret" else [[-1]]
                t["cuts"].append(snap)
            if not ys:
                t["cuts"].append({"out": "none", "lists": [], "sums": [], "lists_end": []})
        except Watchdog:
            t["cuts"] = [{"out": "timeout", "lists": [], "sums": [], "lists_end": []}]
        except Exception as e:
            t["cuts"].append({"out": outcome_of_exception(e), "lists": [], "sums": [], "lists_end": []})
        t["R"] = len(ys)
    return t


# ------------------------------------------------------------------ C17: ILP options
def run_ilp(st):
    """st: {vals, k, o, kp, copies: [..], copies_scalar: bool, w: [..] or None, cons, c, inject} -> one-call trace"""
    vals, k = st["vals"], st["k"]
    fmt = st.get("fmt", "dict")
    items, valueof, back = present(vals, fmt)
    t = dict(st)
    t["fmt"] = fmt
    t["lvals"] = []
    t["wgiven"] = 1 if st.get("w") else 0
    t["w"] = list(st["w"]) if st.get("w") else [1] * k
    t["inject"] = st.get("inject") or ""
    kw = {"objective": objective(st["o"], st.get("kp", 0))}
    cp = st["copies"]
    if st.get("copies_scalar"):
        kw["copies"] = cp[0]
    else:
        kw["copies"] = list(cp)       # per item, in the order of the items (as in examples/maximin_share_demo.py)
    if st.get("w"):
        kw["weights"] = list(st["w"])
    c = st.get("c", 0)
    cons = st.get("cons", "none")
    if cons == "smallest_eq":
        kw["additional_constraints"] = lambda sums: [sums[0] == c]
    elif cons == "largest_le":
        kw["additional_constraints"] = lambda sums: [sums[-1] <= c]
    elif cons == "smallest_ge":
        kw["additional_constraints"] = lambda sums: [sums[0] >= c]
    MIP_CTL["nopre"] = bool(st.get("nopre"))
    MIP_CTL["inject"] = st.get("inject") or None
    try:
        hang.arm(60)
        try:
            ret = prtpy.partition(algorithm=prt.ilp, numbins=k, items=items, outputtype=out.PartitionAndSumsTuple, **kw)
        finally:
            hang.arm(0)
        t.update(norm_pst(ret, vals, back))
        if fmt == "list":
            lv = [[exact_int(x) for x in b] for b in ret[1]]
            t["lvals"] = [[(-1 if x is None else x) for x in b] for b in lv]
            t["lists"] = [[] for _ in lv]
        else:
            t["lvals"] = [[] for _ in t["lists"]]
    except Watchdog:
        t.update(empty_result("timeout"))
    except Exception as e:
        t.update(empty_result(outcome_of_exception(e)))
    finally:
        MIP_CTL["inject"] = None
        MIP_CTL["nopre"] = False
    t["solver"] = (MIP_CTL.get("last") or {}).get("status", "")
    # the solver's own answer (the integer variables counts[item][bin], created item by item), for the check against the model the code should have built
    xs = (MIP_CTL.get("last") or {}).get("x") or []
    t["x"] = []
    if t["out"] == "ret" and len(xs) == len(vals) * k:
        rows = []
        for i in range(len(vals)):
            row = []
            for b in range(k):
                v = xs[i * k + b]
                row.append(int(round(v)) if v is not None and abs(v - round(v)) < 1e-6 else -1)
            rows.append(row)
        t["x"] = rows
    t["cps"] = 1 if st.get("copies_scalar") else 0     # how `copies` was GIVEN (one number / a list) is part of the stimulus: a re-solve must present it the same way
    for kdel in ("copies_scalar", "nopre"):
        t.pop(kdel, None)
    return t


# ------------------------------------------------------------------ C18: metamorphic groups
EXACT = {"dp", "ilp", "cg", "ckk", "snp", "rnp", "cbldm", "bc"}
SORTING = {"greedy", "roundrobin", "multifit", "kk", "ffd", "bfd", "dec", "tt", "tq"}


def run_meta_group(g):
    """g: {events: [{var, f, kind: part|pack, vals, k|C, alg, o, kp, sw, d, it}]} -> same with results (sums only)"""
    evs = []
    for e in g["events"]:
        st = dict(e)
        st.setdefault("fmt", "list")
        if e["kind"] == "part":
            r = run_part(st, g.get("watchdog", 20))
        else:
            st.setdefault("extra", False)
            r = run_pack(st, g.get("watchdog", 20))
        alg = e["alg"]
        evs.append({"var": e["var"], "f": e.get("f", 1), "alg": alg, "cls": "exact" if alg in EXACT else ("sort" if alg in SORTING else "online"),
                    "cfg": e.get("swc", "") + ":" + str(e.get("it", "")) + ":" + str(e.get("d", "")), "o": e.get("o", "diff") if e["kind"] == "part" else "maxsum",
                    "kp": e.get("kp", 0), "out": r["out"], "sums": r.get("sums", []), "exact": r.get("exact", True), "n": len(e["vals"]),
                    "k": e.get("k", 0) if e["kind"] == "part" else 0})
    return {"base": g["base"], "events": evs}


# ------------------------------------------------------------------ spec -> code replay of L1 machines
def replay_cg(rec):
    """rec: emitted by CompleteGreedy.tla (vals, k, o, sw bits, best, trail): run the real complete greedy on the same stimulus under the counting
    clock; returns two drift traces (partition item-for-item; number of loop iterations)"""
    vals, k = rec["vals"], rec["k"]
    ids = list(range(1, len(vals) + 1))
    sw = rec["sw"]
    clock = CountingClock()
    saved = _cg_mod.time
    _cg_mod.time = clock
    try:
        B = prtpy.BinnerKeepingContents(lambda i: vals[i - 1])
        ret = _cg_mod.anytime(B, k, ids, objective=objective(rec["o"]), use_lower_bound=bool(sw[0]), use_fast_lower_bound=bool(sw[1]),
                              use_heuristic_3=bool(sw[2]), use_set_of_seen_states=bool(sw[3]))
        got = [[int(i) for i in b] for b in ret[1]] if ret is not None else []
    except Exception as e:
        got = ["EXC " + type(e).__name__]
    finally:
        _cg_mod.time = saved
    key = {"vals": vals, "k": k, "o": rec["o"], "sw": sw}
    return [{"label": "cg.partition_differs_from_model", "m": rec["best"], "c": got, "key": key},
            {"label": "cg.number_of_loop_iterations_differs_from_model", "m": len(rec["trail"]), "c": clock.n, "key": key}]


def replay_ckk(rec):
    """rec: emitted by CKK.tla (vals, k, best, yields): the real ckk.optimal and ckk.generator on the same stimulus"""
    vals, k = rec["vals"], rec["k"]
    ids = list(range(1, len(vals) + 1))
    key = {"vals": vals, "k": k}
    outl = []
    try:
        B = prtpy.BinnerKeepingContents(lambda i: vals[i - 1])
        ret = _ckk_mod.optimal(B, k, ids)
        got = [[int(i) for i in b] for b in ret[1]]
    except Exception as e:
        got = ["EXC " + type(e).__name__]
    outl.append({"label": "ckk.partition_differs_from_model", "m": rec["best"], "c": got, "key": key})
    try:
        B = prtpy.BinnerKeepingContents(lambda i: vals[i - 1])
        ys = [[[int(i) for i in b] for b in y[1]] for y in _ckk_mod.generator(B, k, ids)]
    except Exception as e:
        ys = ["EXC " + type(e).__name__]
    outl.append({"label": "ckk.generator_yields_differ_from_model", "m": rec["yields"], "c": ys, "key": key})
    return outl


# ------------------------------------------------------------------ magnitude tier (values up to 2^50, totals < 2^53): two-limb numbers for TLC
_BASE = 1 << 26


def limbs(x):
    """exact non-negative integer below 2^53 -> [hi, lo] (base 2^26), else None"""
    try:
        if isinstance(x, bool):
            return None
        if isinstance(x, (int, np.integer)):
            v = int(x)
        else:
            xf = float(x)
            if math.isnan(xf) or math.isinf(xf):
                return None
            f = Fraction(xf)
            if f.denominator != 1:
                return None
            v = int(f)
        if v < 0 or v >= (1 << 53):
            return None
        return [v >> 26, v & (_BASE - 1)]
    except Exception:
        return None


def _limb_seq(xs):
    outl, ok = [], True
    try:
        for x in list(xs):
            l = limbs(x)
            if l is None:
                ok = False; l = [0, 0]
            outl.append(l)
    except Exception:
        return [], False
    return outl, ok


def run_big_refuse(st):
    """st: {vals (python ints, one of them larger than C), C (python int of about 2^53 / 1e16), calls: [(alg, fmt, ot)]}: packing requests that must be
    refused; numbers go to TLC as two limbs (hi < 2^31, lo < 2^26)"""
    vals, C = st["vals"], st["C"]
    two = lambda v: [int(v) >> 26, int(v) & ((1 << 26) - 1)]
    res = []
    for alg, fmt, ot in st["calls"]:
        items, valueof, back = present(vals, fmt)
        o = "ret"
        try:
            hang.arm(20)
            try:
                prtpy.pack(algorithm=pack_alg(alg), binsize=C, items=items, valueof=valueof, outputtype=OUTTYPES[ot])
            finally:
                hang.arm(0)
        except Watchdog:
            o = "timeout"
        except Exception as e:
            o = outcome_of_exception(e)
        res.append({"alg": alg, "fmt": fmt, "ot": ot, "out": o})
    return {"vals": [two(v) for v in vals], "C": two(C), "rawvals": [str(v) for v in vals], "rawC": str(C), "res": res}


def run_big_group(g):
    """g: {vals (python ints up to 2^50), k, calls: [{alg, o, kp, sw...}]}: every call with all ten output types; plus the objectives on the returned sums"""
    vals, k = g["vals"], g["k"]
    res, objs = [], []
    for c in g["calls"]:
        st = dict(c); st["vals"] = vals; st["k"] = k
        items, valueof, back = present(vals, "dict")
        r = {"alg": c["alg"], "out": "ret", "lists": [], "sums": [], "exact": True, "ots": []}
        sums_for_obj = None
        try:
            hang.arm(20)
            try:
                ret = prtpy.partition(algorithm=PART_ALGS[c["alg"]](), numbins=k, items=items, outputtype=out.PartitionAndSumsTuple, **part_kwargs(st))
            finally:
                hang.arm(0)
            if ret is None:
                r["out"] = "none"
            else:
                sums, lists = ret
                r["lists"] = lists_to_ids([list(b) for b in lists], vals, back)
                r["sums"], r["exact"] = _limb_seq(sums)
                sums_for_obj = list(sums)
        except Watchdog:
            r["out"] = "timeout"
        except Exception as e:
            r["out"] = outcome_of_exception(e)
        if r["out"] == "ret":
            for t in ALL_OT:
                if t in ("Partition", "BinCount"):
                    continue
                y = {"t": t, "out": "ret", "v": [], "exact": True}
                try:
                    items2, _, _ = present(vals, "dict")
                    v = prtpy.partition(algorithm=PART_ALGS[c["alg"]](), numbins=k, items=items2, outputtype=OUTTYPES[t], **part_kwargs(st))
                    if t in ("LargestSum", "SmallestSum", "Difference"):
                        v = [v]
                    elif t == "PartitionAndSums":
                        v = v.sums
                    elif t == "PartitionAndSumsTuple":
                        v = v[0]
                    y["v"], y["exact"] = _limb_seq(v)
                except Exception as e:
                    y["out"] = outcome_of_exception(e)
                r["ots"].append(y)
        res.append(r)
        if sums_for_obj is not None and c.get("objs"):
            for o, kp in (("maxsum", 0), ("minsum", 0), ("diff", 0), ("klargest", 2), ("ksmallest", 2), ("klargest", len(sums_for_obj) + 1)):
                for cont in (list, np.array):
                    ev = {"o": o, "kp": kp, "out": "ret", "neg": 0, "mag": [0, 0], "exact": True}
                    ev["s"], _ = _limb_seq(sums_for_obj)
                    try:
                        v = objective(o, kp).value_to_minimize(cont(sums_for_obj))
                        ev["neg"] = 1 if v < 0 else 0
                        m = limbs(abs(v))
                        if m is None:
                            ev["exact"] = False
                        else:
                            ev["mag"] = m
                    except Exception as e:
                        ev["out"] = outcome_of_exception(e)
                    objs.append(ev)
    vl, _ = _limb_seq(vals)
    return {"vals": vl, "rawvals": [str(v) for v in vals], "k": k, "res": res, "objs": objs}


def replay_cbldm(rec):
    """rec: emitted by CBLDM.tla (vals, d, best, calls)"""
    vals, d = rec["vals"], rec["d"]
    ids = list(range(1, len(vals) + 1))
    key = {"vals": vals, "d": d}
    clock = CountingClock()
    saved = _cbldm_mod.time
    _cbldm_mod.time = clock
    try:
        B = prtpy.BinnerKeepingContents(lambda i: vals[i - 1])
        ret = _cbldm_mod.cbldm(B, 2, ids, partition_difference=d)
        r = _pst_ids(ret)
        got = r["lists"] if r["out"] == "ret" else ([] if r["out"] == "none" else ["BAD"])
    except Exception as e:
        got = ["EXC " + type(e).__name__]
    finally:
        _cbldm_mod.time = saved
    return [{"label": "cbldm.partition_differs_from_model", "m": rec["best"], "c": got, "key": key},
            {"label": "cbldm.number_of_recursive_calls_differs_from_model", "m": rec["calls"], "c": clock.n, "key": key}]


def replay_simple(rec):
    """rec: {alg: kk|dp..., vals, k, best}: item-for-item comparison with the real algorithm called on ids"""
    vals, k, alg = rec["vals"], rec["k"], rec["alg"]
    ids = list(range(1, len(vals) + 1))
    try:
        B = prtpy.BinnerKeepingContents(lambda i: vals[i - 1])
        ret = PART_ALGS[alg]()(B, k, ids, **rec.get("kw", {}))
        got = [[int(i) for i in b] for b in ret[1]]
    except Exception as e:
        got = ["EXC " + type(e).__name__]
    return [{"label": alg + ".partition_differs_from_model", "m": rec["best"], "c": got, "key": {"vals": vals, "k": k}}]


from prtpy.partitioning import sequential_number_partitioning_sy as _snp_mod, recursive_number_partitioning_sy as _rnp_mod


def replay_snp(rec):
    """rec: emitted by SNP.tla (vals in arrival order, k, sums (ascending), calls = number of two-way base cases)"""
    vals, k = rec["vals"], rec["k"]
    ids = list(range(1, len(vals) + 1))
    key = {"vals": vals, "k": k}
    count = [0]
    orig = _snp_mod.ckk_optimal

    def counting(*a, **kw):
        count[0] += 1
        return orig(*a, **kw)

    _snp_mod.ckk_optimal = counting
    try:
        B = prtpy.BinnerKeepingContents(lambda i: vals[i - 1])
        ret = _snp_mod.snp(B, k, ids)
        got, ok = norm_sums(sorted(ret[0]))
    except Exception as e:
        got = ["EXC " + type(e).__name__]
    finally:
        _snp_mod.ckk_optimal = orig
    return [{"label": "snp.sums_differ_from_model", "m": rec["sums"], "c": got, "key": key},
            {"label": "snp.number_of_two_way_base_cases_differs_from_model", "m": rec["calls"], "c": count[0], "key": key}]


def replay_rnp(rec):
    """rec: emitted by RNP.tla (vals in arrival order, k, diff, calls = number of two-way base cases)"""
    vals, k = rec["vals"], rec["k"]
    ids = list(range(1, len(vals) + 1))
    key = {"vals": vals, "k": k}
    count = [0]
    orig = _rnp_mod.ckk_optimal

    def counting(*a, **kw):
        count[0] += 1
        return orig(*a, **kw)

    _rnp_mod.ckk_optimal = counting
    try:
        B = prtpy.BinnerKeepingContents(lambda i: vals[i - 1])
        ret = _rnp_mod.rnp(B, k, ids)
        ss, ok = norm_sums(ret[0])
        got = max(ss) - min(ss) if ok else "inexact"
    except Exception as e:
        got = "EXC " + type(e).__name__
    finally:
        _rnp_mod.ckk_optimal = orig
    return [{"label": "rnp.difference_differs_from_model", "m": rec["diff"], "c": got, "key": key},
            {"label": "rnp.number_of_two_way_base_cases_differs_from_model", "m": rec["calls"], "c": count[0], "key": key}]


# ------------------------------------------------------------------ bin-completion helper functions (assumptions of BinCompletion.tla)
from prtpy.packing import bin_completion_utils as _bcu


def run_bc_helper(st):
    if st["kind"] == "comp":
        t = {"kind": "comp", "x": st["x"], "items": list(st["items"]), "C": st["C"], "out": "ret", "comps": []}
        try:
            items = list(st["items"])
            res = _bcu.find_bin_completions(st["x"], items, st["C"])
            t["comps"] = [[int(v) for v in c] for c in res]
            if items != list(st["items"]):
                t["out"] = "bad:argument_modified"
        except Exception as e:
            t["out"] = outcome_of_exception(e)
        return t
    t = {"kind": "dom", "l1": list(st["l1"]), "l2": list(st["l2"]), "out": "ret", "ans": 0}
    try:
        t["ans"] = 1 if _bcu.is_dominant(list(st["l1"]), list(st["l2"])) else 0
    except Exception as e:
        t["out"] = outcome_of_exception(e)
    return t


def replay_cg_trail(rec):
    """rec: emitted by CompleteGreedy.tla: the value of the incumbent after EVERY loop iteration (trail).  The real code is cut at every clock reading and
    the value of what it returns is compared with the model's trail, entry by entry (the cut at reading c returns the incumbent after c-1 iterations)."""
    vals, k, sw = rec["vals"], rec["k"], rec["sw"]
    st = {"alg": "cg", "vals": vals, "k": k, "o": rec["o"], "sw": {"lb": bool(sw[0]), "flb": bool(sw[1]), "h3": bool(sw[2]), "seen": bool(sw[3])}, "swc": "".join(map(str, sw))}
    t = run_anytime(st)
    code = []
    for c in t["cuts"]:
        if c["out"] == "none":
            code.append(-1)
        elif c["out"] == "ret":
            sums = [sum(vals[i - 1] for i in b) for b in c["lists"]]
            code.append(max(sums) - min(sums) if rec["o"] == "diff" else (max(sums) if rec["o"] == "maxsum" else -min(sums)))
        else:
            code.append(c["out"])
    model = [-1] + list(rec["trail"])
    return [{"label": "cg.incumbent_value_after_each_iteration_differs_from_model", "m": model, "c": code, "key": {"vals": vals, "k": k, "o": rec["o"], "sw": sw}}]


# ------------------------------------------------------------------ placement traces of the simple heuristics (logging bins-manager)
class LoggingBinner(prtpy.BinnerKeepingContents):
    """a contents-keeping manager that records every add_item_to_bin(item, bin) it is asked to perform (the README offers the binner as the extension point)"""
    def __init__(self, valueof):
        super().__init__(valueof)
        self.adds = []

    def add_item_to_bin(self, bins, item, bin_index):
        nb = self.numbins(bins)
        self.adds.append({"id": int(item), "bin": int(bin_index) + 1 if bin_index >= 0 else nb + 1 + int(bin_index)})
        return super().add_item_to_bin(bins, item, bin_index)


def run_placements(st):
    """st: {alg, vals, k or C}: the real heuristic called directly with a logging manager on items = ids"""
    vals = st["vals"]
    ids = list(range(1, len(vals) + 1))
    B = LoggingBinner(lambda i: vals[i - 1])
    t = {"alg": st["alg"], "vals": vals, "k": st.get("k", 0), "C": st.get("C", 0), "out": "ret", "adds": []}
    try:
        if st["alg"] in PART_ALGS:
            PART_ALGS[st["alg"]]()(B, st["k"], ids)
        else:
            pack_alg(st["alg"])(B, st["C"], ids)
    except Exception as e:
        t["out"] = outcome_of_exception(e)
    t["adds"] = B.adds
    return t
