"""bin/extras: specification growth beyond the listed properties (not a registered check): bidirectional_balanced, l2/l3 lower bounds, compare_algorithms."""
import sys, io, contextlib
from . import core, scope, drive
from .drive import prtpy, out, np, exact_int, norm_pst, present, outcome_of_exception


def run_extra(st):
    from prtpy.partitioning.balanced import bidirectional_balanced
    from prtpy.packing import bin_completion_utils as bcu
    from fractions import Fraction
    if st["kind"] == "snake":
        vals, k = st["vals"], st["k"]
        items, valueof, back = present(vals, "iddict")
        t = {"kind": "snake", "vals": vals, "k": k}
        try:
            ret = prtpy.partition(algorithm=bidirectional_balanced, numbins=k, items=items, outputtype=out.PartitionAndSumsTuple)
            t["res"] = norm_pst(ret, vals, back)
        except Exception as e:
            t["res"] = {"out": outcome_of_exception(e), "lists": [], "sums": [], "exact": True}
        return t
    if st["kind"] == "bound":
        vals, C = st["vals"], st["C"]
        t = {"kind": "bound", "which": st["which"], "vals": vals, "C": C, "out": "ret", "num": 0, "exact": True}
        try:
            v = getattr(bcu, st["which"])(C, list(vals))
            f = Fraction(v).limit_denominator(C) * C
            if f.denominator != 1 or abs(float(f) / C - float(v)) > 1e-9:
                t["exact"] = False
            else:
                t["num"] = int(f)
        except Exception as e:
            t["out"] = outcome_of_exception(e)
        return t
    vals, k = st["vals"], st["k"]
    t = {"kind": "compare", "vals": vals, "k": k, "out": "ret", "ans": 0, "o1": [], "o2": []}
    try:
        a1, a2 = drive.PART_ALGS[st["a1"]](), drive.PART_ALGS[st["a2"]]()
        with contextlib.redirect_stdout(io.StringIO()):
            ans = prtpy.compare_algorithms(k, list(vals), out.SortedSums, a1, {}, a2, {})
        t["ans"] = 1 if ans else 0
        t["o1"] = [exact_int(x) for x in prtpy.partition(a1, k, list(vals), outputtype=out.SortedSums)]
        t["o2"] = [exact_int(x) for x in prtpy.partition(a2, k, list(vals), outputtype=out.SortedSums)]
    except Exception as e:
        t["out"] = outcome_of_exception(e)
    return t


def run(ck):
    stim = []
    for g in scope.q_scope(ck, 5, 4, [1, 2, 3]):
        stim.append({"kind": "snake", "vals": g["vals"], "k": g["C"]})
    for g in scope.q_scope(ck, 5, 6, [6], minv=1) + scope.q_scope(ck, 4, 7, [7], minv=1):
        if max(g["vals"]) <= g["C"]:
            for which in ("l2_lower_bound", "l3_lower_bound", "lower_bound"):
                stim.append({"kind": "bound", "which": which, "vals": g["vals"], "C": g["C"]})
    for g in scope.p_scope(ck, 5, 4, 3):
        for a1, a2 in (("greedy", "kk"), ("dp", "ckk"), ("greedy", "dp"), ("snp", "rnp")):
            stim.append({"kind": "compare", "vals": g["vals"], "k": g["k"], "a1": a1, "a2": a2})
    traces = core.pmap(run_extra, stim)
    ck.evaluations += len(traces)
    fails = ck.judge("JExtras", traces, {"X"}, what="behaviour beyond the listed properties", chunk=10000, count_events=lambda t: 1)
    tally = {}
    for fl in fails:
        tally[fl["c"]] = tally.get(fl["c"], 0) + 1
        if tally[fl["c"]] <= 2:
            print("  observation:", fl["c"], {k: v for k, v in fl["trace"].items() if k != "res"})
    for c, n in sorted(tally.items()):
        print("OBSERVATION (outside the listed properties) %s: %d of %d" % (c, n, len(traces)))
    print("extras: %d executions judged, %d observations" % (len(traces), len(fails)))


# ---------------------------------------------------------------- prtpy/alternatives/bins.py against BinnerVal (the object-style twin of the bins-managers)
def run_alt_hist(st):
    """replays a BinnerGen history (without concat: the alternative classes have no concatenation) on prtpy.alternatives.bins objects; same trace format as
    drive.run_binner_hist so that JBinner judges it"""
    from prtpy.alternatives import bins as alt
    contents = st["mgr"] == "contents"
    val = lambda it: 0 if it >= 100 else it
    live, evs = {}, []

    def proj(o):
        outl = []
        for i in range(len(o.sums)):
            s = exact_int(o.sums[i])
            outl.append({"s": -999999 if s is None else s, "c": [int(x) for x in o.bins[i]] if contents else []})
        return outl

    for op in st["ops"]:
        ev = dict(op); ev["out"] = "ret"; ev["args"] = []
        a, b = op["a"], op["b"]
        try:
            o = op["op"]
            if o == "new":
                live[a] = (alt.BinsKeepingContents if contents else alt.BinsKeepingSums)(op["n"], val)
            elif o == "add":
                live[a].add_item_to_bin(op["it"], op["i"] - 1)
            elif o == "copy":
                live[b] = live[a].clone()
            elif o == "sort":
                live[a].sort_by_ascending_sum()
            elif o == "addempty":
                live[a].add_empty_bins(op["n"])
            elif o == "remove":
                live[a].remove_bins(op["n"])
            elif o == "combine":
                live[a].combine_bins(op["i"] - 1, live[b], op["j"] - 1)
        except Exception as e:
            ev["out"] = outcome_of_exception(e)
        try:
            ev["st"] = [{"live": 1 if s in live else 0, "bins": proj(live[s]) if s in live else []} for s in range(1, 4)]
        except Exception as e:
            ev["out"] = "bad:projection:" + type(e).__name__
            ev["st"] = [{"live": 0, "bins": []} for s in range(1, 4)]
        evs.append(ev)
        if ev["out"] != "ret":
            break
    return {"mgr": st["mgr"], "ns": 3, "ops": evs}


def run_alternatives(ck):
    from .props import c16
    r = ck.mc("BinnerGen", c16.gen_cfg([1, 2], [1, 2], 2, 4), "GEN operation histories for the alternative Bins classes")
    hists = [e["ops"] for e in r.emitted if all(o["op"] != "concat" for o in e["ops"])]
    stim = [{"ops": h, "mgr": m} for h in hists for m in ("contents", "sums")]
    traces = core.pmap(run_alt_hist, stim)
    fails = ck.judge("JBinner", traces, {"C16"}, what="prtpy.alternatives.bins histories stepped through BinnerVal", chunk=8000, extra_consts=c16.JCFG, count_events=lambda t: len(t["ops"]))
    tally = {}
    for fl in fails:
        c = fl["c"].replace("C16.", "X.alternatives.")
        tally[c] = tally.get(c, 0) + 1
        if tally[c] <= 1:
            ops = [{k: o[k] for k in ("op", "a", "b", "i", "j", "n", "it")} for o in fl["trace"]["ops"][:fl["e"]]]
            print("  observation:", c, fl["trace"]["mgr"], ops, "observed:", fl["trace"]["ops"][fl["e"] - 1]["st"])
    for c, n in sorted(tally.items()):
        print("OBSERVATION (outside the listed properties) %s: %d of %d histories" % (c, n, len(traces)))
    print("extras/alternatives: %d histories judged, %d observations" % (len(traces), len(fails)))


if __name__ == "__main__":
    import os, shutil
    os.environ["VERIF_EVIDENCE_DIR"] = "/tmp/prtpy-verif-extras-ev"
    ck = core.Check("C00", "quick")
    try:
        run(ck)
        run_alternatives(ck)
    finally:
        shutil.rmtree(ck.scratch, ignore_errors=True)
        shutil.rmtree("/tmp/prtpy-verif-extras-ev", ignore_errors=True)


