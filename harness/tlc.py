"""
Thin runner around TLC.  Three roles (DESIGN 2.2):

  MC     exhaustive model checking of an L1/L2 model (invariants, coverage)
  GEN    the same run emits records through PrintT("@@E " \\o ToJson(rec))
  JUDGE  a judge spec reads traces (IOEnv.TRACE_FILE) and emits verdicts "@@V {json}"

Everything TLC prints is parsed here; nothing is decided here.
"""
import json, os, re, shutil, subprocess, tempfile, time

VERIF = os.path.dirname(os.path.dirname(os.path.abspath(__file__)))
SPEC = os.path.join(VERIF, "spec")
JAR = "/opt/veriftools/tla/tla2tools.jar"
DEPS = "/opt/veriftools/tla/CommunityModules-deps.jar"
SPEC_DIRS = [os.path.join(SPEC, d) for d in ("lib", "contract", "alg", "binner", "session", "judge", "mc")]


class TLCError(Exception):
    pass


class TLCResult:
    def __init__(self):
        self.rc = None
        self.stdout = ""
        self.generated = 0      # states generated (TLC's own count)
        self.distinct = 0       # distinct states
        self.depth = 0
        self.emitted = []       # parsed "@@E" records
        self.verdicts = []      # parsed "@@V" records
        self.violated = None    # name of violated invariant / property, if any
        self.error_trace = ""   # text of counterexample
        self.coverage = {}      # action -> (distinct, total)
        self.wall = 0.0
        self.cmd = ""
        self.ok = False         # finished with "No error has been found"


_STR = re.compile(r'^"@@([EV]) (.*)"\s*$')


def _unescape(s):
    # TLC prints strings with \" and \\ escaped
    out = []
    i = 0
    n = len(s)
    while i < n:
        c = s[i]
        if c == "\\" and i + 1 < n:
            d = s[i + 1]
            if d == "n":
                out.append("\n")
            elif d == "t":
                out.append("\t")
            else:
                out.append(d)
            i += 2
        else:
            out.append(c)
            i += 1
    return "".join(out)


def scratch_dir(prefix="prtpy-verif-"):
    return tempfile.mkdtemp(prefix=prefix)


def run(module, cfg_text, *, workers=16, timeout=1500, env=None, simulate=None, depth=None,
        coverage=False, seed=None, scratch=None, deadlock=False, dfid=None, extra=None, heap="8g",
        dedupe_emits=False):
    """
    module: name of the root module (must live in one of SPEC_DIRS)
    cfg_text: text of the .cfg file (written to scratch)
    """
    own = scratch is None
    scratch = scratch or scratch_dir()
    res = TLCResult()
    try:
        root = None
        for d in SPEC_DIRS:
            p = os.path.join(d, module + ".tla")
            if os.path.exists(p):
                root = p
        if root is None:
            raise TLCError("module %s not found" % module)
        # TLC wants root module and cfg side by side; copy root, resolve the rest through TLA-Library
        shutil.copy(root, os.path.join(scratch, module + ".tla"))
        cfg = os.path.join(scratch, module + ".cfg")
        with open(cfg, "w") as f:
            f.write(cfg_text)
        meta = os.path.join(scratch, "meta")
        jtmp = os.path.join(scratch, "jtmp")      # TLC leaves an empty tlc-* directory per run in java.io.tmpdir: keep it inside the scratch
        os.makedirs(jtmp, exist_ok=True)
        cmd = ["java", "-XX:+UseParallelGC", "-Xmx" + heap, "-Djava.io.tmpdir=" + jtmp, "-DTLA-Library=" + ":".join(SPEC_DIRS),
               "-cp", JAR + ":" + DEPS, "tlc2.TLC",
               "-workers", str(workers), "-metadir", meta, "-noGenerateSpecTE", "-config", cfg]
        if not deadlock:
            cmd += ["-deadlock"]
        if coverage:
            cmd += ["-coverage", "1"]
        if simulate:
            cmd += ["-simulate", simulate]
        if depth:
            cmd += ["-depth", str(depth)]
        if seed is not None:
            cmd += ["-seed", str(seed)]
        if extra:
            cmd += extra
        cmd += [module + ".tla"]
        e = dict(os.environ)
        if env:
            e.update({k: str(v) for k, v in env.items()})
        t0 = time.time()
        res.cmd = " ".join(cmd)
        try:
            p = subprocess.run(cmd, cwd=scratch, env=e, stdout=subprocess.PIPE, stderr=subprocess.STDOUT,
                               timeout=timeout, text=True, errors="replace")
            res.rc = p.returncode
            res.stdout = p.stdout
        except subprocess.TimeoutExpired as ex:
            res.rc = -9
            res.stdout = (ex.stdout or b"").decode("utf8", "replace") if isinstance(ex.stdout, bytes) else (ex.stdout or "")
            res.stdout += "\n@@TIMEOUT\n"
        res.wall = time.time() - t0
        _parse(res, dedupe_emits)
        return res
    finally:
        if own:
            shutil.rmtree(scratch, ignore_errors=True)


def _parse(res, dedupe):
    seen = set()
    lines = res.stdout.split("\n")
    in_err = False
    err = []
    for ln in lines:
        m = _STR.match(ln)
        if m:
            body = _unescape(m.group(2))
            if dedupe:
                if body in seen:
                    continue
                seen.add(body)
            try:
                rec = json.loads(body)
            except Exception:
                raise TLCError("unparsable emission: %r" % ln[:200])
            (res.emitted if m.group(1) == "E" else res.verdicts).append(rec)
            continue
        m = re.match(r"^(\d+) states generated, (\d+) distinct states found", ln)
        if m:
            res.generated = int(m.group(1))
            res.distinct = int(m.group(2))
        m = re.match(r"^The depth of the complete state graph search is (\d+)", ln)
        if m:
            res.depth = int(m.group(1))
        m = re.match(r"^Error: Invariant (\S+) is violated", ln)
        if m:
            res.violated = m.group(1)
            in_err = True
        m = re.match(r"^Error: (Action property|Temporal properties|Property) ?(\S*)", ln)
        if m and res.violated is None:
            res.violated = m.group(2) or m.group(1)
            in_err = True
        if ln.startswith("Error: The invariant of") or ln.startswith("Error: Evaluating"):
            in_err = True
        if in_err:
            err.append(ln)
        m = re.match(r"^<(\w+) line \d+, col \d+ to line \d+, col \d+ of module (\w+)(?: \([\d ]+\))?>: (\d+):(\d+)", ln)
        if m:
            res.coverage[m.group(2) + "." + m.group(1)] = (int(m.group(3)), int(m.group(4)))
        if "Model checking completed. No error has been found" in ln:
            res.ok = True
        if "Finished in" in ln or "The number of states generated" in ln:
            pass
    if "-simulate" in res.cmd and res.rc == 0:
        res.ok = True
    res.error_trace = "\n".join(err[:400])


def require_ok(res, what):
    """A TLC run that neither completed cleanly nor reported a property violation is a machinery failure."""
    if res.ok:
        return
    if res.violated:
        return
    tail = "\n".join(res.stdout.split("\n")[-40:])
    raise TLCError("TLC failed for %s (rc=%s)\n%s" % (what, res.rc, tail))


def sany(path):
    cmd = ["java", "-DTLA-Library=" + ":".join(SPEC_DIRS), "-cp", JAR + ":" + DEPS, "tla2sany.SANY", path]
    p = subprocess.run(cmd, stdout=subprocess.PIPE, stderr=subprocess.STDOUT, text=True, cwd=os.path.dirname(path))
    ok = p.returncode == 0 and "Semantic errors" not in p.stdout and "*** Errors" not in p.stdout and "Fatal errors" not in p.stdout and "Parsing or semantic analysis failed" not in p.stdout
    return ok, p.stdout
