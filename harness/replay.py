"""
bin/replay <file>: re-executes the stimulus of a replay file against the CURRENT /repo tree and re-judges the fresh execution with the same TLC
judge and the same active clauses.  Exit 1 (printing VIOLATION ...) if the failing clause is still reported, 0 if the current tree passes,
2 on machinery failure.  Files of kind model_counterexample (a TLC counterexample of an L1/L2 model) are printed, not re-executed.
"""
import json, sys, os
from . import core, tlc


def regenerate(module, trace):
    """build the stimulus from the recorded trace and execute it again"""
    from . import drive
    from .props.common import call, pcall
    if module == "JPart":
        calls = []
        for r in trace["res"]:
            c = call(r["alg"], r.get("fmt", "dict"), o=r.get("o", "diff"), kp=r.get("kp", 0), sw=r.get("swc", ""), d=r.get("d", 0), it=r.get("it", -1))
            if r["alg"] == "cbldm" and r.get("d", 0) >= len(trace["vals"]) and not r.get("d_default") is False:
                c["d_default"] = r.get("d_default", False)
            if r.get("ots"):
                c["allot"] = True
            calls.append(c)
        return drive.run_part_group({"vals": trace["vals"], "k": trace["k"], "mul": trace.get("mul", 1), "calls": calls})
    if module in ("JPack",):
        calls = [dict(pcall(r["alg"], r.get("fmt", "list"), extra=(r.get("bcout", "skip") != "skip")), allot=bool(r.get("ots"))) for r in trace["res"]]
        return drive.run_pack_group({"vals": trace["vals"], "C": trace["C"], "den": trace.get("den", 1), "mul": trace.get("mul", 1), "orc": trace.get("orc", 1), "calls": calls})
    if module == "JScan":
        return drive.run_scan({"vals": trace["vals"], "Cs": [e["C"] for e in trace["events"]], "alg": trace["alg"], "fmt": trace["fmt"], "ot": trace["ot"]})
    if module == "JBinner":
        ops = [{k: o[k] for k in ("op", "a", "b", "i", "j", "n", "it")} for o in trace["ops"]]
        return drive.run_binner_hist({"ops": ops, "mgr": trace["mgr"], "ns": trace.get("ns", 3)})
    if module == "JObj":
        ws = [e["w"] for e in trace["res"] if e["o"] == "wminsum"]
        uniq = []
        for w in ws:
            if w not in uniq:
                uniq.append(w)
        return drive.run_obj({"s": trace["s"], "wlist": uniq})
    if module == "J13":
        if trace["kind"] == "bound":
            return drive.run_bound({"s": trace["s"], "R": trace["R"]})
        if trace["kind"] == "tree":
            return drive.run_tree({"vals": trace["vals"], "lb": trace["lb2"], "ub": trace["ub2"]})
        return drive.run_comb({"c1": trace["c1"], "c2": trace["c2"]})
    if module == "JIlp":
        st = {x: trace[x] for x in ("vals", "k", "o", "kp", "copies", "cons", "c")}
        st["w"] = trace["w"] if trace.get("wgiven") else None
        st["copies_scalar"] = bool(trace.get("cps"))
        st["inject"] = trace.get("inject", "")
        st["fmt"] = trace.get("fmt", "dict")
        return drive.run_ilp(st)
    if module == "JAnytime":
        from .props.common import sw_dict
        st = {"alg": trace["alg"], "vals": trace["vals"], "k": trace["k"], "o": trace["o"], "d": trace["d"], "d_default": trace["d"] >= len(trace["vals"]) and trace["alg"] == "cbldm"}
        if trace["alg"] == "cg":
            st["sw"] = sw_dict(trace["cfg"]); st["swc"] = trace["cfg"]
        return drive.run_anytime(st)
    return None


def main(path):
    obj = json.load(open(path))
    if obj.get("kind") == "model_counterexample":
        print("model counterexample of %s (%s): invariant/property %s" % (obj["module"], obj["what"], obj["violated"]))
        print(obj["trace"][:4000])
        return 1
    if obj.get("kind") == "hang":
        import importlib
        mod, name = obj["fn"].rsplit(".", 1)
        stim = obj["stimulus"]
        if name == "run_seq":
            from . import session
            fn, stim = session.run_seq, stim["calls"]
        else:
            fn = getattr(importlib.import_module(mod), name)
        try:
            core.pmap(fn, [stim])
        except core.HangFound as h:
            print("VIOLATION property=%s replay=%s clause=%s.no_answer_within_%ds (%s)" % (obj["property"], path, obj["property"], h.seconds, h.fn))
            return 1
        print("replay: the call answers on the current tree")
        return 0
    module, active, trace = obj["module"], set(obj["active"]), obj["trace"]
    pid = obj.get("property", "C00")
    fresh = regenerate(module, trace)
    if fresh is None:
        print("replay: module %s has no re-execution recipe; re-judging the RECORDED execution only" % module)
        fresh = trace
    else:
        for extra in ("cert", "opt", "wit", "fam"):
            if extra in trace and isinstance(fresh, dict):
                fresh[extra] = trace[extra]
    os.environ["VERIF_EVIDENCE_DIR"] = tlc.scratch_dir("prtpy-replay-ev-")
    ck = core.Check(pid if pid[0] == "C" else "C00", "quick")
    extra = ""
    if module == "JBinner":
        extra = "CONSTANTS Slots = {1, 2, 3} Items = {1, 2, 3, 100, 101} MaxBins = 12\n"
    fails = ck.judge(module, [fresh], active, what="replay", extra_consts=extra)
    import shutil
    shutil.rmtree(ck.scratch, ignore_errors=True)
    shutil.rmtree(os.environ["VERIF_EVIDENCE_DIR"], ignore_errors=True)
    hard = [f for f in fails if not f["c"].startswith("DRIFT.")]
    for f in fails:
        print("  judged: event %s clause %s" % (f["e"], f["c"]))
    if hard:
        print("VIOLATION property=%s replay=%s (still fails on the current tree: %s)" % (pid, path, ", ".join(sorted({f["c"] for f in hard}))))
        return 1
    print("replay: the current tree passes the %s clauses on this stimulus (originally: %s)" % (",".join(sorted(active)), obj.get("clause")))
    return 0


if __name__ == "__main__":
    try:
        sys.exit(main(sys.argv[1]))
    except (core.Machinery, tlc.TLCError) as e:
        print("MACHINERY-FAILURE replay:", e)
        sys.exit(2)
