"""
Check orchestration: tiers, seeds, TLC MC/GEN/JUDGE invocations, verdict accounting, known findings,
replay files, evidence.  Exit codes: 0 property held on everything explored (KNOWN-FINDING lines allowed),
1 VIOLATION, 2 machinery failure (never silently 0).
"""
import hashlib, json, multiprocessing as mp, os, random, shutil, sys, time, traceback

from . import tlc, hang
from .hang import StimulusTimeout

VERIF = tlc.VERIF
EVID = os.environ.get("VERIF_EVIDENCE_DIR") or os.path.join(VERIF, "evidence")
REPLAY = os.path.join(EVID, "replay")
KNOWN = os.path.join(VERIF, "known_findings.json")


class Machinery(Exception):
    pass


def load_known():
    if not os.path.exists(KNOWN):
        return []
    return json.load(open(KNOWN))


def _trigger_holds(trig, ctx):
    """trigger predicates of known findings, evaluated on the context of a failing event"""
    for key, want in trig.items():
        if key == "k_ge":
            if not (ctx.get("k", 0) >= want):
                return False
        elif key == "k_eq":
            if ctx.get("k") != want:
                return False
        elif key == "weights_unequal":
            w = ctx.get("weights") or []
            if (len(set(w)) > 1) != want:
                return False
        elif key == "alg":
            if ctx.get("alg") != want:
                return False
        elif key == "fmt_in":
            if ctx.get("fmt") not in want:
                return False
        elif key == "outtype_in":
            if ctx.get("outtype") not in want:
                return False
        elif key == "sw_h3":
            c = ctx.get("cfg") or ""
            if (len(c) == 4 and c[2] == "1") != want:
                return False
        elif key == "objective":
            if ctx.get("o") != want:
                return False
        else:
            raise Machinery("unknown trigger key %s" % key)
    return True


class Check:
    def __init__(self, pid, tier=None, seed=None, level="model_checking"):
        self.pid = pid
        self.tier = tier or os.environ.get("VERIF_TIER", "quick")
        if self.tier not in ("quick", "thorough"):
            self.tier = "quick"
        hang.OUTER_T[0] = hang.HANG_T * (1 if self.tier == "quick" else 12)
        hang.ESCALATE[0] = (self.tier == "quick")     # quick-tier stimuli are small: a call silent for watchdog + HANG_T seconds is a hang (harness/hang.py)
        self.seed = int(seed if seed is not None else os.environ.get("VERIF_SEED", "20260929"))
        self.rng = random.Random(self.seed * 1000003 + int(pid[1:]))
        self.level = level
        self.t0 = time.time()
        self.states = 0
        self.transitions = 0
        self.traces = 0            # recorded executions of the real code judged by TLC
        self.events = 0            # call/return (or operation) events inside those traces
        self.evaluations = 0
        self.nontrivial = set()
        self.samples = []
        self.violations = []       # (clause, ctx, replay_path)
        self.known_hits = {}       # known-finding index -> count
        self.drift = 0
        self.drift_samples = []
        self.timeouts = 0
        self.judge_failures = []   # judge invocations that had to be given up
        self.unjudgeable = []      # replay files of recorded executions the judge could not evaluate at all
        self.mc_runs = []          # dicts describing every MC run
        self.judge_runs = []
        self.categories = {}
        self.notes = []
        self.assumptions = []
        self.exhaustive = False
        self.rule = ""
        self.scratch = tlc.scratch_dir("prtpy-verif-%s-" % pid)
        self.known = [k for k in load_known() if k.get("property") == pid]
        self.budget = float(os.environ.get("VERIF_BUDGET", 150 if self.tier == "quick" else 1500))
        os.makedirs(REPLAY, exist_ok=True)
        for f in os.listdir(REPLAY):          # replay files of earlier runs of this property are stale
            if f.startswith(pid + "-"):
                os.remove(os.path.join(REPLAY, f))

    # ---------------------------------------------------------------- helpers
    def quick(self):
        return self.tier == "quick"

    def time_left(self):
        return self.budget - (time.time() - self.t0)

    def cat(self, name, n=1):
        self.categories[name] = self.categories.get(name, 0) + n

    def note(self, s):
        self.notes.append(s)
        print("NOTE:", s, flush=True)

    def sample(self, x, cap=6):
        if len(self.samples) < cap:
            self.samples.append(x)

    # ---------------------------------------------------------------- MC / GEN
    def mc(self, module, cfg_text, what, *, expect_violation=None, timeout=None, workers=16, coverage=False,
           simulate=None, depth=None, env=None, dedupe_emits=False, seed=None, required_actions=()):
        """model-check an L1/L2 module; a violated invariant is a VIOLATION of the model-level claim unless expected
        (negative controls).  Returns the TLCResult (with .emitted records)."""
        r = tlc.run(module, cfg_text, timeout=timeout or max(60, self.time_left() + 600), workers=workers,
                    coverage=coverage, simulate=simulate, depth=depth, env=env, dedupe_emits=dedupe_emits,
                    seed=seed if seed is not None else (self.seed if simulate else None))
        tlc.require_ok(r, what)
        self.states += r.distinct
        self.transitions += r.generated
        run = {"what": what, "module": module, "distinct_states": r.distinct, "states_generated": r.generated,
               "depth": r.depth, "wall_s": round(r.wall, 1), "emitted": len(r.emitted), "violated": r.violated}
        if coverage and r.coverage:
            run["action_coverage"] = {a: c[1] for a, c in r.coverage.items()}
            for a in required_actions:
                hit = [c for n, c in r.coverage.items() if n.endswith("." + a)]
                if not hit or hit[0][1] == 0:
                    raise Machinery("vacuity: action %s of %s never taken in %s" % (a, module, what))
        self.mc_runs.append(run)
        if expect_violation is not None:
            if r.violated != expect_violation:
                raise Machinery("negative control %s: expected violation of %s, got %s" % (what, expect_violation, r.violated))
        elif r.violated:
            path = self.write_replay({"kind": "model_counterexample", "module": module, "what": what,
                                      "violated": r.violated, "trace": r.error_trace})
            self.violations.append(("model:" + module + ":" + r.violated, {"what": what}, path))
        return r

    # ---------------------------------------------------------------- JUDGE
    def judge(self, module, traces, active, *, ctx_of=None, chunk=20000, timeout=None, extra_consts="",
              count_events=lambda t: len(t.get("res", [])) or 1, what=None):
        """Judges traces with TLC. Returns list of failures: dicts {trace, e, c}.
        Exactly one verdict per trace is required."""
        fails = []
        for off in range(0, len(traces), chunk):
            part = traces[off:off + chunk]
            if not part:
                continue
            tf = os.path.join(self.scratch, "traces_%s_%d.json" % (module, off))
            with open(tf, "w") as f:
                json.dump(part, f)
            cfg = "CONSTANT Active = {%s}\n%sINIT Init\nNEXT Next\n" % (
                ", ".join('"%s"' % a for a in sorted(active)), extra_consts)
            r = tlc.run(module, cfg, env={"TRACE_FILE": tf}, timeout=timeout or max(1800, self.time_left() + 1800))
            attempts = 0
            while not r.ok:
                # A judge is meant to be total.  If TLC nevertheless fails to EVALUATE one recorded execution (a shape no clause anticipated), that trace is
                # set aside (kept as a replay file, reported at the end as a machinery failure) and the others are still judged, so that one
                # unevaluable trace cannot hide the verdicts on the thousands around it.
                import re
                err = r.stdout[r.stdout.find("Error:"):] if "Error:" in r.stdout else ""
                m = re.search(r"/\\ tid = (\d+)", err)
                attempts += 1
                if not m or attempts > 25 or int(m.group(1)) > len(part):
                    # not an isolated trace: this judge invocation is given up, the check goes on with its other judges and ends as a machinery
                    # failure (exit 2) unless a violation is established elsewhere (exit 1)
                    tail = "\n".join(r.stdout.split("\n")[-30:])
                    self.judge_failures.append("judge %s (%s) did not complete (rc=%s)\n%s" % (module, what or "", r.rc, tail))
                    part = []
                    break
                bad = part.pop(int(m.group(1)) - 1)
                path = self.write_replay({"kind": "unjudgeable", "property": self.pid, "module": module, "active": sorted(active), "trace": bad,
                                          "tlc_error": err[:1500]})
                self.unjudgeable.append(path)
                if not part:
                    break
                with open(tf, "w") as f:
                    json.dump(part, f)
                r = tlc.run(module, cfg, env={"TRACE_FILE": tf}, timeout=timeout or max(1800, self.time_left() + 1800))
            if not part:
                os.remove(tf)
                continue
            seen = {}
            for v in r.verdicts:
                if v["tid"] in seen:
                    raise Machinery("judge %s: two verdicts for trace %d" % (module, v["tid"]))
                seen[v["tid"]] = v
            if len(seen) != len(part):
                raise Machinery("judge %s: %d verdicts for %d traces" % (module, len(seen), len(part)))
            self.states += r.distinct
            self.transitions += r.generated
            self.traces += len(part)
            self.events += sum(count_events(t) for t in part)
            self.judge_runs.append({"module": module, "active": sorted(active), "traces": len(part),
                                    "wall_s": round(r.wall, 1), "what": what or ""})
            for tid, v in seen.items():
                for fl in v["fails"]:
                    fails.append({"trace": part[tid - 1], "e": fl.get("e", 0), "c": fl["c"], "module": module,
                                  "active": sorted(active)})
            os.remove(tf)
        return fails

    # ---------------------------------------------------------------- failures -> violations / known findings / drift
    def write_replay(self, obj):
        blob = json.dumps(obj, sort_keys=True)
        h = hashlib.sha1(blob.encode()).hexdigest()[:12]
        path = os.path.join(REPLAY, "%s-%s.json" % (self.pid, h))
        with open(path, "w") as f:
            json.dump(obj, f, indent=1, sort_keys=True)
        return path

    def classify(self, fails, ctx_of):
        """ctx_of(fail) -> dict describing the failing event (alg, k, fmt, weights...) for known-finding matching."""
        for fl in fails:
            clause = fl["c"]
            if clause.startswith("MACHINERY."):
                raise Machinery("judge %s reported %s on %s" % (fl["module"], clause, json.dumps(fl["trace"])[:400]))
            ctx = ctx_of(fl)
            if clause.startswith("DRIFT."):
                self.drift += 1
                if len(self.drift_samples) < 5:
                    self.drift_samples.append({"clause": clause, "ctx": ctx})
                continue
            hit = None
            for i, k in enumerate(self.known):
                if k.get("status") != "known":
                    continue
                if k.get("alg") and k["alg"] != ctx.get("alg"):
                    continue
                if not clause.startswith(k["clause"]):
                    continue
                if k.get("clause_contains") and k["clause_contains"] not in clause:
                    continue
                if not _trigger_holds(k.get("trigger", {}), ctx):
                    continue
                hit = i
                break
            if hit is not None:
                self.known_hits[hit] = self.known_hits.get(hit, 0) + 1
                continue
            if len(self.violations) < 50:
                path = self.write_replay({"property": self.pid, "clause": clause, "event": fl["e"], "ctx": ctx,
                                          "module": fl["module"], "active": fl["active"], "trace": fl["trace"]})
            else:
                path = self.violations[-1][2]
            self.violations.append((clause, ctx, path))

    # ---------------------------------------------------------------- finish
    def finish(self):
        wall = time.time() - self.t0
        shutil.rmtree(self.scratch, ignore_errors=True)
        for i, k in enumerate(self.known):
            if k.get("status") == "known":
                if self.known_hits.get(i, 0) > 0:
                    print("KNOWN-FINDING: property=%s %s (%d explored cases hit it)" % (self.pid, k["what"], self.known_hits[i]))
                else:
                    print("STALE-FINDING: property=%s %s (its witness no longer fails in this run)" % (self.pid, k["what"]))
        if self.drift:
            print("DRIFT property=%s count=%d (model/code disagreement with every contract clause holding) e.g. %s" %
                  (self.pid, self.drift, json.dumps(self.drift_samples[:1])))
        tally = {}
        for clause, ctx, path in self.violations:
            kk = "%s alg=%s fmt=%s" % (clause, ctx.get("alg"), ctx.get("fmt"))
            tally[kk] = tally.get(kk, 0) + 1
        for kk in sorted(tally, key=lambda x: -tally[x])[:25]:
            print("  violation-class: %6d  %s" % (tally[kk], kk))
        seen = set()
        for clause, ctx, path in self.violations:
            key = (clause, path)
            if key in seen:
                continue
            seen.add(key)
            if len(seen) <= 12:
                print("VIOLATION property=%s replay=%s clause=%s ctx=%s" % (self.pid, path, clause, json.dumps(ctx, sort_keys=True)[:300]))
        cov = {
            "states": max(self.states, 0),
            "transitions": max(self.transitions, 0),
            "traces_validated_against_impl": self.traces,
            "samples": self.samples[:8] or [{"note": "no sample recorded"}],
            "evaluations": max(self.evaluations, self.events, 1),
            "distinct_nontrivial": len(self.nontrivial),
            "rule": self.rule,
            "exhaustive": self.exhaustive,
            "events_judged": self.events,
            "mc_runs": self.mc_runs,
            "judge_runs": self.judge_runs[:40],
            "judge_invocations": len(self.judge_runs),
            "categories": self.categories,
            "drift": self.drift,
            "timeouts": self.timeouts,
            "unjudgeable_traces": len(self.unjudgeable),
            "max_stimulus_s": round(_MAXDT.value, 2),
            "stimulus_timeout_s": hang.OUTER_T[0],
            "known_finding_hits": {self.known[i]["what"]: n for i, n in self.known_hits.items()},
            "notes": self.notes,
        }
        ev = {"property_id": self.pid, "tier": self.tier, "seed": self.seed, "level": self.level, "coverage": cov,
              "assumptions": self.assumptions, "wall_s": round(wall, 1), "violations": len(self.violations)}
        os.makedirs(EVID, exist_ok=True)
        with open(os.path.join(EVID, self.pid + ".json"), "w") as f:
            json.dump(ev, f, indent=1)
        print("%s tier=%s seed=%d: %d traces (%d events) judged by TLC, %d states, %d violations, %d known-finding hits, %.0fs" %
              (self.pid, self.tier, self.seed, self.traces, self.events, self.states, len(self.violations),
               sum(self.known_hits.values()), wall), flush=True)
        for msg in self.judge_failures:
            print("MACHINERY-FAILURE property=%s %s" % (self.pid, msg), flush=True)
        if self.judge_failures and not self.unjudgeable:
            return 1 if self.violations else 2
        if self.unjudgeable:
            print("MACHINERY-FAILURE property=%s %d recorded execution(s) could not be evaluated by the judge (kept as %s ...); verdicts on the others stand"
                  % (self.pid, len(self.unjudgeable), self.unjudgeable[0]), flush=True)
            return 1 if self.violations else 2
        return 1 if self.violations else 0


# ---------------------------------------------------------------- parallel execution of the real code
class HangFound(Exception):
    def __init__(self, fn, stimulus, seconds):
        Exception.__init__(self, "%s gave no answer within %ds" % (fn, seconds))
        self.fn, self.stimulus, self.seconds = fn, stimulus, seconds


# A call of the library that does not come back: every stimulus of a clean tree answers in well under a minute (the slowest one is
# printed in the evidence as max_stimulus_s), so a stimulus that is still running after HANG_T seconds - twice, the second time alone -
# is reported as a violation ("no answer") instead of hanging the whole check.  Timer discipline: harness/hang.py.
HANG_T = hang.HANG_T
HANG_LIMIT = 2
_HANGS = mp.Value("i", 0)
_MAXDT = mp.Value("d", 0.0)
_HANG = "__hang__"


def _guarded(fn, x):
    if _HANGS.value >= HANG_LIMIT:
        return {_HANG: "skipped"}
    t0 = time.time()
    hang.outer_begin(hang.OUTER_T[0])
    try:
        return fn(x)
    except StimulusTimeout:
        with _HANGS.get_lock():
            _HANGS.value += 1
        return {_HANG: "timeout"}
    finally:
        hang.outer_end()
        dt = time.time() - t0
        if dt > _MAXDT.value:
            with _MAXDT.get_lock():
                _MAXDT.value = max(_MAXDT.value, dt)


def _is_hang(r):
    return isinstance(r, dict) and _HANG in r


def pmap(fn, items, procs=16, chunksize=None):
    import functools
    items = list(items)
    if not items:
        return []
    g = functools.partial(_guarded, fn)
    _HANGS.value = 0
    ctx = mp.get_context("fork")
    with ctx.Pool(min(procs, len(items))) as pool:
        res = pool.map(g, items, chunksize or max(1, len(items) // (procs * 8)))
    bad = [i for i, r in enumerate(res) if _is_hang(r)]
    if bad:
        # confirm alone (no competing workers); a second timeout is a hang, otherwise every postponed stimulus is run again
        for n, i in enumerate(bad):
            _HANGS.value = 0
            with ctx.Pool(1) as pool:
                res[i] = pool.map(g, [items[i]])[0]
            if _is_hang(res[i]):
                raise HangFound(getattr(fn, "__module__", "?") + "." + getattr(fn, "__name__", "?"), items[i], int(hang.OUTER_T[0]))
    return res


def run_check(fn, pid, argv):
    tier = None
    for i, a in enumerate(argv):
        if a == "--tier" and i + 1 < len(argv):
            tier = argv[i + 1]
    ck = None
    try:
        ck = Check(pid, tier)
        fn(ck)
        rc = ck.finish()
    except HangFound as h:
        path = ck.write_replay({"kind": "hang", "property": pid, "fn": h.fn, "stimulus": h.stimulus, "timeout_s": h.seconds})
        st = h.stimulus if isinstance(h.stimulus, dict) else {}
        ck.violations.append(("%s.no_answer_within_%ds" % (pid, h.seconds), {"alg": st.get("alg"), "fn": h.fn, "stimulus": json.dumps(h.stimulus)[:200]}, path))
        ck.note("the check stopped at the first call of the library that gave no answer (twice, the second time alone): %s" % h)
        rc = ck.finish()
    except (Machinery, tlc.TLCError) as e:
        print("MACHINERY-FAILURE property=%s %s" % (pid, e), flush=True)
        if ck:
            shutil.rmtree(ck.scratch, ignore_errors=True)
        rc = 2
    except Exception:
        traceback.print_exc()
        print("MACHINERY-FAILURE property=%s unexpected exception" % pid, flush=True)
        if ck:
            shutil.rmtree(ck.scratch, ignore_errors=True)
        rc = 2
    sys.exit(rc)
