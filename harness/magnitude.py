"""Magnitude tier shared by C01, C06 and C20: values up to 2^50 judged with two-limb arithmetic (JBig.tla)."""
from . import core, drive, gen
from .props.common import call, feasible


def run(ck, active, count, objs=False):
    groups = []
    for g in gen.big_families(ck.rng, count):
        n, k = len(g["vals"]), g["k"]
        cs = [call(a, "dict") for a in ("greedy", "roundrobin", "kk", "multifit", "ckk", "snp", "rnp")]
        cs += [call("cg", "dict", o=o, sw="1101") for o in ("diff", "maxsum", "minsum")] + [call("dp", "dict", o="diff"), call("dp", "dict", o="klargest", kp=2)]
        if k == 2:
            cs += [call("cbldm", "dict", d=n, d_default=True)]
        g["calls"] = [dict(c, objs=objs) for c in cs if feasible(c["alg"], n, k) and (c["alg"] not in ("snp", "rnp", "ckk") or n <= 7)]
        groups.append(g)
    traces = core.pmap(drive.run_big_group, groups)
    for t in traces:
        t["res"] = [r for r in t["res"] if r["out"] != "timeout"]
        ck.evaluations += len(t["res"]) + len(t["objs"])
        ck.nontrivial.add(("big", tuple(t["rawvals"]), t["k"]))
    ck.cat("magnitude_tier_groups", len(traces))
    ck.sample({"magnitude_tier_values": traces[0]["rawvals"], "k": traces[0]["k"], "first_event": {x: traces[0]["res"][0][x] for x in ("alg", "out", "lists", "sums")}})
    fails = ck.judge("JBig", traces, active, what="magnitude tier (values up to 2^50, two-limb arithmetic) for %s" % ",".join(sorted(active)), chunk=400,
                     count_events=lambda t: len(t["res"]) + len(t["objs"]))
    ck.classify(fails, lambda fl: {"alg": (fl["trace"]["res"] + fl["trace"]["objs"])[fl["e"] - 1].get("alg", (fl["trace"]["res"] + fl["trace"]["objs"])[fl["e"] - 1].get("o")),
                                   "vals": fl["trace"]["rawvals"], "k": fl["trace"]["k"], "event": (fl["trace"]["res"] + fl["trace"]["objs"])[fl["e"] - 1]})
