"""Seeded random / degenerate / adversarial / planted input families beyond the exhaustive scopes (DESIGN 6).
These only propose inputs; every result is judged by TLC."""


def part_families(rng, count, maxn=10, maxv=100, maxk=5):
    out = []
    for i in range(count):
        kind = i % 8
        n = rng.randint(1, maxn)
        k = rng.randint(1, maxk)
        if kind == 0:      # all equal
            v = rng.randint(0, maxv)
            vals = [v] * n
        elif kind == 1:    # with zeros
            vals = [rng.choice([0, 0, rng.randint(1, maxv)]) for _ in range(n)]
        elif kind == 2:    # k > n
            k = n + rng.randint(1, 2)
            vals = [rng.randint(0, maxv) for _ in range(n)]
        elif kind == 3:    # small values, many ties
            vals = [rng.randint(1, 4) for _ in range(n)]
        elif kind == 4:    # near-perfect: planted equal bins, perturbed
            per = rng.randint(1, 3)
            tgt = rng.randint(5, maxv)
            vals = []
            for b in range(k):
                rest = tgt
                for j in range(per - 1):
                    x = rng.randint(0, rest)
                    vals.append(x)
                    rest -= x
                vals.append(rest)
            if rng.random() < 0.5 and vals:
                vals[rng.randrange(len(vals))] += 1
            vals = vals[:maxn] or [1]
        else:
            vals = [rng.randint(0, maxv) for _ in range(n)]
        if k > 7:
            k = 7
        rng.shuffle(vals)
        out.append({"vals": vals, "k": k})
    return out


def rnp_families(rng, count):
    """4- and 5-bin instances of 6-9 items: the sizes on which the recursive partitioner's even/odd branches do real work"""
    out = []
    for i in range(count):
        n = rng.randint(5, 9)
        k = rng.choice([3, 4, 4, 4, 5])
        if k == 5:
            n = min(n, 8)
        vals = [rng.randint(0 if i % 5 == 0 else 1, rng.choice([12, 40, 99])) for _ in range(n)]
        out.append({"vals": vals, "k": k, "only": ["rnp", "snp", "ckk"] if (n <= 8 or k <= 4) else ["rnp", "snp"]})
    return out


def pigeonhole_family():
    """deterministic: k+1 and k+2 nearly equal items into k bins, k = 2..8 (the pigeonhole shape: some bin must take two items; capacity-search
    partitioners such as multifit must still come back with at most k bins)"""
    out = []
    for k in range(2, 9):
        for v in (1, 3, 7, 10, 16):
            for n in (k + 1, k + 2):
                for lows in range(0, n + 1, max(1, n // 4)):
                    vals = [v] * (n - lows) + [max(0, v - 1)] * lows
                    out.append({"vals": vals, "k": k})
    return out


def near_equal_large(rng, count):
    """5-7 items of the form B + r (B = 1e5..1e7, r < 40) into 2-3 bins: partial sums that are relatively close (1e-5 and less) without being equal -
    what a tolerance comparison (isclose) on bin sums, or single-precision sums, would confuse"""
    out = []
    for i in range(count):
        B = rng.choice([10 ** 5, 10 ** 6, 10 ** 7, 250000000])     # 2.5e8: sums far beyond 2^24 (single precision) with at most 8 items still below 2^31
        k = rng.choice([2, 3, 3])
        # mostly a multiple of k items: then the balanced partitions' extreme sums are all relatively close to total/k (the perfect-partition bound)
        n = (rng.choice([6, 6, 8]) if k == 2 else 6) if i % 4 else rng.randint(5, 7)
        spread = rng.choice([40, 40, 2000])
        out.append({"vals": [B + rng.randint(0, spread) for _ in range(n)], "k": k})
    return out


def dominant_family(rng, count, k=2):
    """one dominant item of about 2e9 next to 3-6 small items: every sum difference is about 2e9 and the candidates differ by a few units, i.e. by a
    relative 1e-9 (math.isclose's default tolerance); the total stays below 2^31 so that TLC's oracles can still compute with it"""
    out = []
    for i in range(count):
        D = rng.choice([2100000000, 2100000000, 2000000100, 1500000000])   # (D - small) * 1e-9 >= 2: differences two units apart count as "close"
        n = rng.randint(3, 6)
        out.append({"vals": [D] + [rng.randint(0, 9) for _ in range(n)], "k": k})
        if i % 3 == 0:
            rng.shuffle(out[-1]["vals"])
    return out


def heavy_item_family(rng, count):
    """one item at least as large as all the others together (values of ordinary size), 3-5 bins: the heavy item fills a bin of its own and the rest
    is an instance of its own with one bin fewer - shortcuts that are sound for two bins ("the largest item dominates: done") are not for more"""
    out = []
    for i in range(count):
        k = rng.choice([3, 3, 3, 4, 4, 4, 5])
        n = rng.randint(4, 8 if k <= 4 else 7)
        rest = [rng.randint(1, rng.choice([9, 30, 60])) for _ in range(n)]
        out.append({"vals": [sum(rest) + rng.choice([0, 0, 1, 5, 40])] + rest, "k": k})
        if i % 2:
            rng.shuffle(out[-1]["vals"])
    return out


def witness_family(rng, count):
    """instances beyond the exhaustive TLA+ oracle (8-11 items, 3-5 bins) for the witness-judged half of C02: the sizes at which the recursive /
    sequential partitioners' branches, windows and incumbent updates do real work (a 5-bin defect of rnp showed on about 1 in 1000 such inputs)"""
    out = []
    for i in range(count):
        r = rng.random()
        if r < 0.6:
            k, n = 5, rng.choice([8, 9, 9])
        elif r < 0.85:
            k, n = 4, rng.randint(8, 10)
        else:
            k, n = 3, rng.randint(9, 11)
        mv = rng.choice([15, 50, 50, 100])
        vals = [rng.randint(0 if i % 9 == 0 else 1, mv) for _ in range(n)]
        out.append({"vals": vals, "k": k})
    return out


def planted_partitions(rng, count, maxitems=300):
    """instances built as k bins of equal total T (so OPT max = OPT min = T): the certificate is the planted partition"""
    out = []
    for _ in range(count):
        k = rng.randint(2, 6)
        per = max(1, rng.randint(2, max(2, maxitems // k)))
        T = rng.randint(per, 2000)
        vals, cert = [], []
        for b in range(k):
            cuts = sorted(rng.randint(0, T) for _ in range(per - 1))
            parts = [b2 - a for a, b2 in zip([0] + cuts, cuts + [T])]
            ids = list(range(len(vals) + 1, len(vals) + len(parts) + 1))
            vals += parts
            cert.append(ids)
        # shuffle ids consistently
        perm = list(range(len(vals)))
        rng.shuffle(perm)
        newvals = [0] * len(vals)
        pos = {}
        for newi, oldi in enumerate(perm):
            newvals[newi] = vals[oldi]
            pos[oldi + 1] = newi + 1
        out.append({"vals": newvals, "k": k, "cert": [[pos[i] for i in b] for b in cert]})
    return out


def pack_families(rng, count, maxn=12, minv=0):
    """bin-packing inputs beyond the exhaustive scope: uniform, small-items, triplet (C/4<v<C/2), half-size, exact fills, C/5..2C/3, C/6..C/2"""
    out = []
    for i in range(count):
        kind = i % 7
        C = rng.choice([9, 10, 15, 20, 50, 100])
        n = rng.randint(6, maxn)
        lo = max(minv, 1 if kind else minv)
        if kind == 0:
            vals = [rng.randint(minv, C) for _ in range(n)]
        elif kind == 1:
            vals = [rng.randint(lo, max(lo, C // 3)) for _ in range(n)]
        elif kind == 2:
            vals = [rng.randint(C // 4 + 1, max(C // 4 + 1, (C - 1) // 2)) for _ in range(n)]
        elif kind == 3:
            vals = [rng.choice([C // 2, C // 2 + 1, C // 2 - 1, C // 3, C - C // 2]) for _ in range(n)]
            vals = [max(lo, v) for v in vals]
        elif kind == 4:   # planted exact fills, shuffled
            vals = []
            while len(vals) < n:
                rest = C
                for _ in range(rng.randint(1, 3)):
                    x = rng.randint(lo, max(lo, rest - lo)) if rest > lo else rest
                    x = min(x, rest)
                    vals.append(x); rest -= x
                if rest >= lo and rest > 0:
                    vals.append(rest)
            vals = [v for v in vals if v >= minv][:maxn]
        elif kind == 5:
            vals = [rng.randint(max(lo, C // 5), (2 * C) // 3) for _ in range(n)]
        else:             # several items per bin, exact fills possible but not always right: the search has to branch
            C = rng.choice([12, 16, 20, 25, 30])
            n = rng.randint(min(8, maxn), maxn)
            vals = [rng.randint(max(lo, C // 6), C // 2) for _ in range(n)]
        rng.shuffle(vals)
        out.append({"vals": vals, "C": C})
    return out


def cover_families(rng, count, maxn=12):
    out = []
    for i in range(count):
        kind = i % 5
        C = rng.choice([7, 9, 10, 12, 15, 30, 60, 100, 101])      # odd sizes too: the class thresholds C/2, C/3 are then not integers
        n = rng.randint(3, maxn)
        if kind == 0:
            vals = [rng.randint(1, C + 2) for _ in range(n)]
        elif kind == 1:
            vals = [rng.randint(1, max(1, C // 3)) for _ in range(n)]
        elif kind == 2:   # around the class thresholds C/2 and C/3
            vals = [max(1, rng.choice([C // 2, C // 2 - 1, C // 2 + 1, C // 3, C // 3 + 1, C // 3 - 1, 1, 2])) for _ in range(n)]
        elif kind == 3:
            vals = [rng.randint(1, max(1, C // 2)) for _ in range(n)]
        else:
            vals = [rng.randint(max(1, C // 4), C - 1) for _ in range(n)]
        rng.shuffle(vals)
        out.append({"vals": vals, "C": C})
    return out


def _planted_bins(rng, count, maxitems, C_choices, exact=True):
    out = []
    for _ in range(count):
        C = rng.choice(C_choices)
        m = rng.randint(2, max(2, maxitems // 4))
        vals, cert = [], []
        for b in range(m):
            per = rng.randint(1, 5)
            cuts = sorted(rng.randint(1, C - 1) for _ in range(per - 1))
            parts = [b2 - a for a, b2 in zip([0] + cuts, cuts + [C])]
            parts = [p for p in parts if p > 0]
            if sum(parts) != C:
                parts = [C]
            ids = list(range(len(vals) + 1, len(vals) + len(parts) + 1))
            vals += parts
            cert.append(ids)
            if len(vals) >= maxitems:
                break
        perm = list(range(len(vals)))
        rng.shuffle(perm)
        newvals = [0] * len(vals)
        pos = {}
        for newi, oldi in enumerate(perm):
            newvals[newi] = vals[oldi]
            pos[oldi + 1] = newi + 1
        out.append({"vals": newvals, "C": C, "cert": [[pos[i] for i in b] for b in cert]})
    return out


def planted_small_packings(rng, count, bins=(3, 3, 4), minitems=0, maxitems=14):
    """perfect packings of 10-14 items (3-4 bins of 2-5 items each, bin sizes 30..100) in random order: the optimum is the number of planted bins, and the
    search of bin completion has long completions made of many small items to find (or wrongly discard)"""
    out = []
    for _ in range(count):
        C = rng.choice([30, 50, 60, 100])
        m = rng.choice(bins)
        vals, cert = [], []
        for b in range(m):
            per = rng.choice([2, 3, 3, 4, 5])
            cuts = sorted(rng.sample(range(2, C - 1), per - 1))
            parts = [b2 - a for a, b2 in zip([0] + cuts, cuts + [C])]
            cert.append(list(range(len(vals) + 1, len(vals) + len(parts) + 1)))
            vals += parts
        if len(vals) > maxitems or len(vals) < minitems:
            continue
        perm = list(range(len(vals))); rng.shuffle(perm)
        newvals = [0] * len(vals); pos = {}
        for newi, oldi in enumerate(perm):
            newvals[newi] = vals[oldi]; pos[oldi + 1] = newi + 1
        out.append({"vals": newvals, "C": C, "cert": [[pos[i] for i in b] for b in cert]})
    return out


def planted_packings(rng, count, maxitems=300):
    return _planted_bins(rng, count, maxitems, [10, 60, 100, 1000])


def planted_covers(rng, count, maxitems=300):
    out = _planted_bins(rng, count - count // 3, maxitems, [10, 12, 60, 100, 1200])
    # threshold-heavy planted covers: every item is exactly a half, a third, a quarter or a sixth of the bin size
    for _ in range(count // 3):
        C = rng.choice([6, 12, 60, 1200])
        m = rng.randint(6, max(6, maxitems // 5))
        shapes = [[C // 3] * 3, [C // 2] * 2, [C // 2, C // 3, C // 6], [C // 3, C // 3, C // 6, C // 6], [C // 6] * 6, [C // 2, C // 6, C // 6, C // 6], [C]]
        u = rng.random()
        if u < 0.3:
            shapes = shapes[:1]                      # only exact thirds
        elif u < 0.6:
            shapes = [[C], [C // 2] * 2]             # only whole and half bins: every bin closes on an exact fill, no small filler
        vals, cert = [], []
        for b in range(m):
            parts = rng.choice(shapes)
            cert.append(list(range(len(vals) + 1, len(vals) + len(parts) + 1)))
            vals += parts
            if len(vals) >= maxitems:
                break
        perm = list(range(len(vals))); rng.shuffle(perm)
        newvals = [0] * len(vals); pos = {}
        for newi, oldi in enumerate(perm):
            newvals[newi] = vals[oldi]; pos[oldi + 1] = newi + 1
        out.append({"vals": newvals, "C": C, "cert": [[pos[i] for i in b] for b in cert]})
    return out


def exact_fill_covers():
    """deterministic planted covers made only of whole-bin and half-bin items (every bin closes on an exact fill); certificate = one bin per whole item / pair of halves"""
    out = []
    for C in (6, 10, 1200):
        for whole, halves in ((15, 0), (17, 0), (24, 0), (40, 0), (12, 8), (6, 20), (0, 32), (20, 2)):
            vals = [C] * whole + [C // 2] * (2 * halves)
            cert = [[i + 1] for i in range(whole)] + [[whole + 2 * j + 1, whole + 2 * j + 2] for j in range(halves)]
            out.append({"vals": vals, "C": C, "cert": cert})
    return out


def big_families(rng, count):
    """magnitude tier: values between 2^24 and 2^50 with total < 2^53 (all bin sums exact in float64), at most 12 items"""
    out = []
    for i in range(count):
        n = rng.randint(2, 9)
        bits = rng.choice([25, 27, 31, 33, 40, 48, 49])
        vals = [rng.randint(1 << 24, (1 << bits) - 1) for _ in range(n)]
        if i % 4 == 0:
            vals[rng.randrange(n)] = 0
        if i % 5 == 0:
            vals = vals + [vals[0]]            # a repeated huge value
        if i % 7 == 0:
            vals = [v | 1 for v in vals]       # odd: needs the last bit
        assert sum(vals) < (1 << 53)
        out.append({"vals": vals, "k": rng.randint(1, 4)})
    return out


def window_tight_families(rng, count):
    """instances whose optimal partitions have one outlier bin and all other bins equal - (s, s+e, ..., s+e) or (s, ..., s, s+e): the first-bin sum then
    lies exactly on the edge of the admissible window of the sequential / recursive partitioners, and the pruning bound of CKK is met with equality"""
    out = []
    for i in range(count):
        k = rng.choice([3, 3, 4, 4, 5])
        s = rng.randint(8, 24)
        e = rng.randint(1, 3)
        sums = [s] + [s + e] * (k - 1) if i % 2 == 0 else [s] * (k - 1) + [s + e]
        vals = []
        for t in sums:
            parts = rng.randint(1, 3)
            cuts = sorted(rng.randint(1, t - 1) for _ in range(parts - 1))
            vals += [b - a for a, b in zip([0] + cuts, cuts + [t]) if b - a > 0]
        if i % 5 == 0:
            vals.append(0)
        vals = vals[:10 if k <= 4 else 8]
        rng.shuffle(vals)
        out.append({"vals": vals, "k": k, "only": ["rnp", "snp", "ckk"] if (k <= 3 or len(vals) <= 8) else ["rnp", "snp"]})
    return out


def near_miss_families(rng, count, cover=True, giga=False):
    """large bin sizes with running sums that land ONE unit (a relative 1e-6) below / above the bin size: exposes floating-point tolerances"""
    out = []
    for i in range(count):
        kind = i % 4
        # 1e5..1e6: one unit is a relative 1e-5..1e-6 (numpy's isclose); giga: 1e9, where one unit is a relative 1e-9 (math.isclose) - only for judges whose integer forms stay below 2^31 (no 3*v)
        C = rng.choice([100000, 1000000, 1 << 20, 999983] + ([10 ** 9, 10 ** 9] if giga else []))
        d = rng.choice([1, 1, 2, 5])
        if kind == 0:
            vals = [C - d] + [rng.randint(1, 3) for _ in range(rng.randint(0, 3))]
        elif kind == 1:
            vals = [C // 2, C - C // 2 - d] + [rng.randint(1, 3) for _ in range(rng.randint(0, 3))]
        elif kind == 2:
            vals = [C - d, C // 2, C - C // 2 - d, rng.randint(1, 3), rng.randint(1, 3)]
        else:
            vals = [C // 3, C // 3, C - 2 * (C // 3) - d, C - d] + [rng.randint(1, 2) for _ in range(rng.randint(0, 2))]
        if not cover:
            vals = [min(v, C) for v in vals]
        rng.shuffle(vals)
        out.append({"vals": vals[:8], "C": C})
    return out


def gscale_families(rng, count, cover=True):
    """small instances (values <= 21, so that TLC's oracles and rule machines apply) presented to the library MULTIPLIED by a common factor of about 1e8:
    every value still fits a signed 32-bit integer, sums of two values and the bin size do not.  The judges see the small numbers (dividing by the
    common factor is exact); the library sees int32 / int64 / uint32 numpy arrays, lists and dicts of numbers around 2^31.  Shapes: two medium items
    (binsize/3 <= v < binsize/2) whose sum passes 2^31, items on the class thresholds, exact fills."""
    out = []
    for i in range(count):
        mul = rng.choice([10 ** 8, 10 ** 8, 99999989, 1 << 26])
        top = (2 ** 31 - 1) // mul           # 21 for 1e8, 31 for 2^26
        C = rng.choice([24, 30, 30, 36, 27, 25]) if cover else rng.choice([22, 24, 30, 25])
        n = rng.randint(3, 9)
        kind = i % 3
        if kind == 0:
            vals = [rng.randint(1, min(top, C)) for _ in range(n)]
        elif kind == 1:   # big / medium / small classes all present
            vals = [rng.randint((C + 1) // 2, min(top, C)) for _ in range(rng.randint(0, 2))] + \
                   [rng.randint((C + 2) // 3, (C - 1) // 2) for _ in range(rng.randint(2, 4))] + \
                   [rng.randint(1, max(1, (C - 1) // 3)) for _ in range(rng.randint(1, 4))]
        else:             # thresholds and exact fills
            vals = [rng.choice([C // 2, C // 3, C - C // 2, C // 2 - 1, C // 3 + 1, 1, 2]) for _ in range(n)]
        vals = [min(v, top) for v in vals]
        if not cover:
            vals = [min(v, C) for v in vals]
        rng.shuffle(vals)
        out.append({"vals": vals, "C": C, "mul": mul,
                    "fmts": [rng.choice(["int32array", "int32array", "uint32array", "int64array", "list", "iddict"])]})
    return out


def long_families(rng, count, cover=False, lo=65, hi=260):
    """LONG inputs (65-260 items): an implementation may switch to another code path above a size threshold (an indexed search, a vectorised
    loop, a different sort) - shapes that make exact fits the only room left, complementary pairs, and uniform values"""
    out = []
    for i in range(count):
        C = rng.choice([100, 60, 64, 30])
        n = rng.randint(lo, hi)
        kind = i % 4
        if kind == 0:
            vals = [rng.randint(0 if not cover else 1, C) for _ in range(n)]
        elif kind == 1:          # complementary pairs a, C-a in arrival order a, C-a, ...: the partner fits exactly one bin
            vals = []
            while len(vals) < n:
                a = rng.randint(C // 2 + 1, C - 1); vals += [a, C - a]
        elif kind == 2:          # few distinct values, many ties
            pool = [rng.randint(1, C) for _ in range(4)]
            vals = [rng.choice(pool) for _ in range(n)]
        else:                    # exact fills by triples, shuffled
            vals = []
            while len(vals) < n:
                a = rng.randint(1, C - 2); b = rng.randint(1, C - a - 1); vals += [a, b, C - a - b]
            rng.shuffle(vals)
        out.append({"vals": vals[:hi], "C": C})
    return out
