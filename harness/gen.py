"""Seeded random / degenerate / adversarial / planted input families beyond the exhaustive scopes (DESIGN 6).
These only propose inputs; every result is judged by TLC."""


def part_families(rng, count, maxn=10, maxv=100, maxk=5):
    out = []
    for i in range(count):
        kind = i % 8
        n = rng.randint(1, maxn)
        k = rng.randint(1, maxk)
        if kind == 0:      # all equal
            v = rng.randint(0, maxv)
            vals = [v] * n
        elif kind == 1:    # with zeros
            vals = [rng.choice([0, 0, rng.randint(1, maxv)]) for _ in range(n)]
        elif kind == 2:    # k > n
            k = n + rng.randint(1, 2)
            vals = [rng.randint(0, maxv) for _ in range(n)]
        elif kind == 3:    # small values, many ties
            vals = [rng.randint(1, 4) for _ in range(n)]
        elif kind == 4:    # near-perfect: planted equal bins, perturbed
            per = rng.randint(1, 3)
            tgt = rng.randint(5, maxv)
            vals = []
            for b in range(k):
                rest = tgt
                for j in range(per - 1):
                    x = rng.randint(0, rest)
                    vals.append(x)
                    rest -= x
                vals.append(rest)
            if rng.random() < 0.5 and vals:
                vals[rng.randrange(len(vals))] += 1
            vals = vals[:maxn] or [1]
        else:
            vals = [rng.randint(0, maxv) for _ in range(n)]
        if k > 7:
            k = 7
        rng.shuffle(vals)
        out.append({"vals": vals, "k": k})
    return out


def rnp_families(rng, count):
    """4- and 5-bin instances of 6-9 items: the sizes on which the recursive partitioner's even/odd branches do real work"""
    out = []
    for i in range(count):
        n = rng.randint(5, 9)
        k = rng.choice([3, 4, 4, 4, 5])
        if k == 5:
            n = min(n, 8)
        vals = [rng.randint(0 if i % 5 == 0 else 1, rng.choice([12, 40, 99])) for _ in range(n)]
        out.append({"vals": vals, "k": k, "only": ["rnp", "snp", "ckk"] if (n <= 8 or k <= 4) else ["rnp", "snp"]})
    return out


def planted_partitions(rng, count, maxitems=300):
    """instances built as k bins of equal total T (so OPT max = OPT min = T): the certificate is the planted partition"""
    out = []
    for _ in range(count):
        k = rng.randint(2, 6)
        per = max(1, rng.randint(2, max(2, maxitems // k)))
        T = rng.randint(per, 2000)
        vals, cert = [], []
        for b in range(k):
            cuts = sorted(rng.randint(0, T) for _ in range(per - 1))
            parts = [b2 - a for a, b2 in zip([0] + cuts, cuts + [T])]
            ids = list(range(len(vals) + 1, len(vals) + len(parts) + 1))
            vals += parts
            cert.append(ids)
        # shuffle ids consistently
        perm = list(range(len(vals)))
        rng.shuffle(perm)
        newvals = [0] * len(vals)
        pos = {}
        for newi, oldi in enumerate(perm):
            newvals[newi] = vals[oldi]
            pos[oldi + 1] = newi + 1
        out.append({"vals": newvals, "k": k, "cert": [[pos[i] for i in b] for b in cert]})
    return out
