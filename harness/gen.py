"""Seeded random / degenerate / adversarial / planted input families beyond the exhaustive scopes (DESIGN 6).
These only propose inputs; every result is judged by TLC."""


def part_families(rng, count, maxn=10, maxv=100, maxk=5):
    out = []
    for i in range(count):
        kind = i % 8
        n = rng.randint(1, maxn)
        k = rng.randint(1, maxk)
        if kind == 0:      # all equal
            v = rng.randint(0, maxv)
            vals = [v] * n
        elif kind == 1:    # with zeros
            vals = [rng.choice([0, 0, rng.randint(1, maxv)]) for _ in range(n)]
        elif kind == 2:    # k > n
            k = n + rng.randint(1, 2)
            vals = [rng.randint(0, maxv) for _ in range(n)]
        elif kind == 3:    # small values, many ties
            vals = [rng.randint(1, 4) for _ in range(n)]
        elif kind == 4:    # near-perfect: planted equal bins, perturbed
            per = rng.randint(1, 3)
            tgt = rng.randint(5, maxv)
            vals = []
            for b in range(k):
                rest = tgt
                for j in range(per - 1):
                    x = rng.randint(0, rest)
                    vals.append(x)
                    rest -= x
                vals.append(rest)
            if rng.random() < 0.5 and vals:
                vals[rng.randrange(len(vals))] += 1
            vals = vals[:maxn] or [1]
        else:
            vals = [rng.randint(0, maxv) for _ in range(n)]
        if k > 7:
            k = 7
        rng.shuffle(vals)
        out.append({"vals": vals, "k": k})
    return out
