"""Tiny helpers used ONLY to label explored inputs with categories for the evidence (never to decide a property)."""
import math


def bfd_count(vals, C):
    bins = []
    for v in sorted(vals, reverse=True):
        best = -1
        for i, s in enumerate(bins):
            if s + v <= C and (best < 0 or s > bins[best]):
                best = i
        if best >= 0:
            bins[best] += v
        else:
            bins.append(v)
    return len(bins)


def lb_count(vals, C):
    return math.ceil(sum(vals) / C) if C else 0


def objective_value(o, kp, sums):
    """the value to MINIMISE of a sum vector under objective o (the same five as ObjectivesDoc.tla's Value)"""
    sv = sorted(sums)
    if o == "maxsum":
        return sv[-1]
    if o == "minsum":
        return -sv[0]
    if o == "diff":
        return sv[-1] - sv[0]
    if o == "ksmallest":
        return -sum(sv[:kp])
    if o == "klargest":
        return sum(sv[len(sv) - kp:]) if kp > 0 else 0
    raise ValueError(o)


def best_partition(vals, k, o="diff", kp=0):
    """an optimal k-way partition for objective o, by exhaustive dynamic programming over sorted sum vectors with back-pointers; returns
    (value, bins as lists of 1-based ids).  Used to supply WITNESS partitions that TLC checks itself (JWit): the judge never trusts this
    computation - a wrong witness can only make a violation go unreported."""
    order = sorted(range(len(vals)), key=lambda i: -vals[i])
    layer = {tuple([0] * k): None}
    hist = []
    for i in order:
        nxt = {}
        for sv in layer:
            seen = set()
            for b in range(k):
                if sv[b] in seen:
                    continue
                seen.add(sv[b])
                t = list(sv); t[b] += vals[i]
                key = tuple(sorted(t))
                if key not in nxt:
                    nxt[key] = (sv, sv[b])
        hist.append(nxt)
        layer = nxt
    best = min(layer, key=lambda sv: (objective_value(o, kp, sv), sv))
    cur = best
    assign = []   # (item index, sum of the bin it was added to BEFORE adding)
    for j in range(len(order) - 1, -1, -1):
        prev, bsum = hist[j][cur]
        assign.append((order[j], bsum))
        cur = prev
    assign.reverse()
    sums, bins = [0] * k, [[] for _ in range(k)]
    for i, bsum in assign:
        b = next(b for b in range(k) if sums[b] == bsum)
        sums[b] += vals[i]; bins[b].append(i + 1)
    assert sorted(sums) == list(best)
    return objective_value(o, kp, best), bins


def best_diff_partition(vals, k):
    return best_partition(vals, k, "diff", 0)
