"""Tiny helpers used ONLY to label explored inputs with categories for the evidence (never to decide a property)."""
import math


def bfd_count(vals, C):
    bins = []
    for v in sorted(vals, reverse=True):
        best = -1
        for i, s in enumerate(bins):
            if s + v <= C and (best < 0 or s > bins[best]):
                best = i
        if best >= 0:
            bins[best] += v
        else:
            bins.append(v)
    return len(bins)


def lb_count(vals, C):
    return math.ceil(sum(vals) / C) if C else 0
