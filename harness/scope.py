"""Bounded input universes, enumerated by TLC (GEN role) - Python only parses what TLC emitted."""
from . import tlc


def _cfg(mode, maxn, minv, maxv, maxk, cs):
    return ("CONSTANTS Mode = \"%s\" MaxN = %d MinV = %d MaxV = %d MaxK = %d Cs = {%s}\nINIT Init\nNEXT Next\n"
            % (mode, maxn, minv, maxv, maxk, ", ".join(map(str, cs)) or "0"))


def p_scope(ck, maxn, maxv, maxk, minv=0):
    r = ck.mc("Scope", _cfg("P", maxn, minv, maxv, maxk, []), "GEN P-scope n<=%d v<=%d k<=%d" % (maxn, maxv, maxk))
    recs = sorted(({"vals": e["vals"], "k": e["k"]} for e in r.emitted), key=lambda e: (len(e["vals"]), e["vals"], e["k"]))
    return recs


def q_scope(ck, maxn, maxv, cs, minv=0):
    r = ck.mc("Scope", _cfg("Q", maxn, minv, maxv, 0, cs), "GEN Q-scope n<=%d v<=%d C in %s" % (maxn, maxv, cs))
    recs = sorted(({"vals": e["vals"], "C": e["C"]} for e in r.emitted), key=lambda e: (len(e["vals"]), e["vals"], e["C"]))
    return recs
