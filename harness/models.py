"""L1 machines: model checking (MC), stimulus generation (GEN) and spec->code replay, shared by several property checks."""
from . import core, drive

SW_ALL = list(range(16))
SW_SOME = [0, 13, 15, 2, 4, 8, 1]


def cg_cfg(maxn, maxv, maxk, switches, interrupt, invariants, props=(), objs=("diff", "maxsum", "minsum")):
    return ("CONSTANTS MaxN = %d MinV = 0 MaxV = %d MaxK = %d Objs = {%s} AllowInterrupt = %s\nSwitches = {%s}\nINIT Init\nNEXT Next\n%s%s" %
            (maxn, maxv, maxk, ", ".join('"%s"' % o for o in objs), "TRUE" if interrupt else "FALSE", ", ".join(map(str, switches)),
             "".join("INVARIANT %s\n" % i for i in invariants), "".join("PROPERTY %s\n" % p for p in props)))


def cg_mc(ck, maxn, maxv, maxk, switches, interrupt, invariants, props=(), what=""):
    return ck.mc("CompleteGreedy", cg_cfg(maxn, maxv, maxk, switches, interrupt, invariants, props),
                 "MC CompleteGreedy n<=%d v<=%d k<=%d x %d switch combinations x 3 objectives%s: %s %s" %
                 (maxn, maxv, maxk, len(switches), " with Interrupt in every loop state" if interrupt else "", ", ".join(invariants), what),
                 coverage=True, required_actions=("StepLeaf", "StepExpand", "Finish") + (("Interrupt",) if interrupt else ()) + (("StepH3",) if any(s & 2 for s in switches) else ()))


def cg_replay(ck, maxn, maxv, maxk, switches):
    """GEN: every terminal state of the uninterrupted machine is emitted and replayed into the real code (DRIFT-level comparison)"""
    r = ck.mc("CompleteGreedy", cg_cfg(maxn, maxv, maxk, switches, False, ["Emit"]), "GEN CompleteGreedy terminal states (model's own partition and trail)")
    recs = r.emitted
    pairs = core.pmap(drive.replay_cg, recs)
    traces = [t for p in pairs for t in p]
    fails = ck.judge("JDrift", traces, {"DRIFT"}, what="spec->code replay of CompleteGreedy (%d stimuli)" % len(recs), count_events=lambda t: 1)
    ck.classify(fails, lambda fl: {"alg": "cg", "key": fl["trace"]["key"], "model": fl["trace"]["m"], "code": fl["trace"]["c"]})
    ck.cat("cg_model_replays", len(recs))
    return recs


def ckk_cfg(maxn, maxv, maxk, invariants):
    return "CONSTANTS MaxN = %d MinV = 0 MaxV = %d MaxK = %d\nINIT Init\nNEXT Next\n%s" % (maxn, maxv, maxk, "".join("INVARIANT %s\n" % i for i in invariants))


def ckk_mc(ck, maxn, maxv, maxk, invariants):
    return ck.mc("CKK", ckk_cfg(maxn, maxv, maxk, invariants), "MC CKK n<=%d v<=%d k<=%d: %s" % (maxn, maxv, maxk, ", ".join(invariants)),
                 coverage=True, required_actions=("Prune", "Leaf", "Branch", "Finish"))


def ckk_replay(ck, maxn, maxv, maxk):
    r = ck.mc("CKK", ckk_cfg(maxn, maxv, maxk, ["Emit"]), "GEN CKK terminal states (model's own partition and yields)")
    recs = r.emitted
    traces = [t for p in core.pmap(drive.replay_ckk, recs) for t in p]
    fails = ck.judge("JDrift", traces, {"DRIFT"}, what="spec->code replay of CKK (%d stimuli)" % len(recs), count_events=lambda t: 1)
    ck.classify(fails, lambda fl: {"alg": "ckk", "key": fl["trace"]["key"], "model": fl["trace"]["m"], "code": fl["trace"]["c"]})
    ck.cat("ckk_model_replays", len(recs))
    return recs


def heur_mc(ck, algs, invariants, maxn=4, maxv=6, maxk=3, cs=(5, 6), minv=0):
    """the simple heuristics as stepwise state machines (Heuristics.tla): invariants hold at every step, for every input in scope"""
    acts = {"greedy": "PlaceGreedy", "roundrobin": "Deal", "ff": "PlaceOrOpen", "bf": "PlaceOrOpen", "ffd": "PlaceOrOpen", "bfd": "PlaceOrOpen",
            "dec": "FillDec", "tt": "FillTT", "tq": "FillTQ"}
    cfg = ("CONSTANTS MaxN = %d MinV = %d MaxV = %d MaxK = %d Cs = {%s} Algs = {%s}\nINIT Init\nNEXT Next\n%s" %
           (maxn, minv, maxv, maxk, ", ".join(map(str, cs)), ", ".join('"%s"' % a for a in algs), "".join("INVARIANT %s\n" % i for i in invariants)))
    return ck.mc("Heuristics", cfg, "MC stepwise heuristic machines %s, n<=%d v<=%d: %s at every step" % ("/".join(algs), maxn, maxv, ", ".join(invariants)),
                 coverage=True, required_actions=tuple(sorted({acts[a] for a in algs})) + ("Done",))


def cbldm_cfg(maxn, maxv, ds, interrupt, invariants, props=()):
    return ("CONSTANTS MaxN = %d MinV = 0 MaxV = %d Ds = {%s} AllowInterrupt = %s\nINIT Init\nNEXT Next\n%s%s" %
            (maxn, maxv, ", ".join(map(str, ds)), "TRUE" if interrupt else "FALSE", "".join("INVARIANT %s\n" % i for i in invariants), "".join("PROPERTY %s\n" % p for p in props)))


def cbldm_mc(ck, maxn, maxv, ds, interrupt, invariants, props=()):
    return ck.mc("CBLDM", cbldm_cfg(maxn, maxv, ds, interrupt, invariants, props),
                 "MC CBLDM n<=%d v<=%d bounds %s%s: %s" % (maxn, maxv, ds, " with Interrupt at every call" if interrupt else "", ", ".join(list(invariants) + list(props))),
                 coverage=True, required_actions=("Leaf", "Prune", "Branch") + (("Interrupt",) if interrupt else ()))


def cbldm_replay(ck, maxn, maxv, ds):
    r = ck.mc("CBLDM", cbldm_cfg(maxn, maxv, ds, False, ["Emit"]), "GEN CBLDM terminal states (model's own partition and call count)")
    recs = r.emitted
    traces = [t for p in core.pmap(drive.replay_cbldm, recs) for t in p]
    fails = ck.judge("JDrift", traces, {"DRIFT"}, what="spec->code replay of CBLDM (%d stimuli)" % len(recs), count_events=lambda t: 1)
    ck.classify(fails, lambda fl: {"alg": "cbldm", "key": fl["trace"]["key"], "model": fl["trace"]["m"], "code": fl["trace"]["c"]})
    ck.cat("cbldm_model_replays", len(recs))
    return recs


def kk_mc_replay(ck, maxn, maxv, maxk, invariants=("Conservation", "SpreadBounded", "FinalOK")):
    cfg = "CONSTANTS MaxN = %d MinV = 0 MaxV = %d MaxK = %d\nINIT Init\nNEXT Next\n%s" % (maxn, maxv, maxk, "".join("INVARIANT %s\n" % i for i in list(invariants) + ["Emit"]))
    r = ck.mc("KK", cfg, "MC + GEN Karmarkar-Karp machine n<=%d v<=%d k<=%d: %s at every merge" % (maxn, maxv, maxk, ", ".join(invariants)),
              coverage=True, required_actions=("Merge", "Finish"))
    recs = [dict(e, alg="kk") for e in r.emitted]
    traces = [t for p in core.pmap(drive.replay_simple, recs) for t in p]
    fails = ck.judge("JDrift", traces, {"DRIFT"}, what="spec->code replay of KK (%d stimuli)" % len(recs), count_events=lambda t: 1)
    ck.classify(fails, lambda fl: {"alg": "kk", "key": fl["trace"]["key"], "model": fl["trace"]["m"], "code": fl["trace"]["c"]})
    ck.cat("kk_model_replays", len(recs))


def dp_mc(ck, maxn, maxv, maxk):
    cfg = ("CONSTANTS MaxN = %d MinV = 0 MaxV = %d MaxK = %d Objs = {\"diff\", \"maxsum\", \"minsum\", \"klargest\", \"ksmallest\"}\nINIT Init\nNEXT Next\n"
           "INVARIANT Complete\nINVARIANT PathsConsistent\nINVARIANT FinalOK\n" % (maxn, maxv, maxk))
    return ck.mc("DP", cfg, "MC dynamic-programming machine n<=%d v<=%d k<=%d x 5 objectives: layers complete, paths consistent, any minimal pick optimal" % (maxn, maxv, maxk),
                 coverage=True, required_actions=("Layer", "Pick"))


def multifit_mc_replay(ck, maxn, maxv, maxk, iters=(0, 1, 2, 5, 10)):
    cfg = ("CONSTANTS MaxN = %d MinV = 0 MaxV = %d MaxK = %d Iters = {%s}\nINIT Init\nNEXT Next\nINVARIANT HiFeasible\nINVARIANT FinalOK\nINVARIANT Emit\n"
           % (maxn, maxv, maxk, ", ".join(map(str, iters))))
    r = ck.mc("Multifit", cfg, "MC + GEN multifit machine (exact rational capacities) n<=%d v<=%d k<=%d iterations %s: HiFeasible at every probe, FinalOK" % (maxn, maxv, maxk, list(iters)),
              coverage=True, required_actions=("Probe", "Final"))
    recs = [dict(vals=e["vals"], k=e["k"], best=e["best"], alg="multifit", kw={"iterations": e["it"]}) for e in r.emitted]
    traces = [t for p in core.pmap(drive.replay_simple, recs) for t in p]
    fails = ck.judge("JDrift", traces, {"DRIFT"}, what="spec->code replay of multifit (%d stimuli; rational model vs float code)" % len(recs), count_events=lambda t: 1)
    ck.classify(fails, lambda fl: {"alg": "multifit", "key": fl["trace"]["key"], "model": fl["trace"]["m"], "code": fl["trace"]["c"]})
    ck.cat("multifit_model_replays", len(recs))


def snp_mc_replay(ck, maxn, maxv, ks=(2, 3, 4)):
    cfg = ("CONSTANTS MaxN = %d MinV = 0 MaxV = %d Ks = {%s}\nINIT Init\nNEXT Next\nINVARIANT IncumbentReal\nINVARIANT Optimal\nINVARIANT RootAliveUntilOptimal\nINVARIANT Emit\nPROPERTY Monotone\n"
           % (maxn, maxv, ", ".join(map(str, ks))))
    r = ck.mc("SNP", cfg, "MC + GEN sequential-number-partitioning machine (frames + inclusion/exclusion tree with windows raised on improvement) n<=%d v<=%d k in %s" % (maxn, maxv, list(ks)),
              coverage=True, required_actions=("TreeStep", "Return", "Base2"))
    recs = r.emitted
    traces = [t for p in core.pmap(drive.replay_snp, recs) for t in p]
    fails = ck.judge("JDrift", traces, {"DRIFT"}, what="spec->code replay of SNP (%d stimuli): sums and number of two-way base cases" % len(recs), count_events=lambda t: 1)
    ck.classify(fails, lambda fl: {"alg": "snp", "key": fl["trace"]["key"], "model": fl["trace"]["m"], "code": fl["trace"]["c"]})
    ck.cat("snp_model_replays", len(recs))


def rnp_mc_replay(ck, maxn, maxv, ks=(2, 3, 4, 5)):
    cfg = ("CONSTANTS MaxN = %d MinV = 0 MaxV = %d Ks = {%s}\nINIT Init\nNEXT Next\nINVARIANT IncumbentReal\nINVARIANT Optimal\nINVARIANT Emit\nPROPERTY Monotone\n"
           % (maxn, maxv, ", ".join(map(str, ks))))
    r = ck.mc("RNP", cfg, "MC + GEN recursive-number-partitioning machine (tree frames for 3/5 bins, split frames for 4) n<=%d v<=%d k in %s" % (maxn, maxv, list(ks)),
              coverage=True, required_actions=("TreeStep", "SplitStep", "SplitReturn", "TreeReturn", "Base2"))
    recs = r.emitted
    traces = [t for p in core.pmap(drive.replay_rnp, recs) for t in p]
    fails = ck.judge("JDrift", traces, {"DRIFT"}, what="spec->code replay of RNP (%d stimuli): difference and number of two-way base cases" % len(recs), count_events=lambda t: 1)
    ck.classify(fails, lambda fl: {"alg": "rnp", "key": fl["trace"]["key"], "model": fl["trace"]["m"], "code": fl["trace"]["c"]})
    ck.cat("rnp_model_replays", len(recs))


def bc_mc(ck, maxn, maxv, cs):
    cfg = ("CONSTANTS MaxN = %d MaxV = %d Cs = {%s}\nINIT Init\nNEXT Next\nINVARIANT DominanceSafe\nINVARIANT CoverLosesNothing\nINVARIANT SearchSafe\nINVARIANT Optimal\n"
           % (maxn, maxv, ", ".join(map(str, cs))))
    return ck.mc("BinCompletion", cfg, "MC bin-completion (abstract): dominance is safe, the undominated completions lose nothing, the pruned search stays safe and ends optimal; bags n<=%d v<=%d C in %s" % (maxn, maxv, list(cs)),
                 coverage=True, required_actions=("ExpandSome",))


def bc_assumptions(ck, quick):
    """assumption (B) of BinCompletion.tla and the dominance relation itself, on direct calls of the real helper functions (DRIFT level)"""
    import itertools
    stim = []
    for C in ((6, 7) if quick else (6, 7, 10)):
        for nn in range(0, 5 if quick else 6):
            for items in itertools.combinations_with_replacement(range(C - 1, 0, -1), nn):
                for x in range(max(items) if items else 1, C + 1):
                    stim.append({"kind": "comp", "x": x, "items": list(items), "C": C})
    vals = range(5, 0, -1)
    lists = [list(c) for m in range(0, 4) for c in itertools.combinations_with_replacement(vals, m)]
    for l1 in lists:
        for l2 in lists:
            stim.append({"kind": "dom", "l1": l1, "l2": l2})
    traces = core.pmap(drive.run_bc_helper, stim)
    fails = ck.judge("JBC", traces, {"DRIFT"}, what="assumptions of the bin-completion model on the real find_bin_completions / is_dominant (%d direct calls)" % len(stim), chunk=8000,
                     count_events=lambda t: 1)
    ck.classify(fails, lambda fl: {"alg": "bc-helper", "call": fl["trace"]})
    ck.cat("bc_helper_calls", len(stim))


def cg_trail_replay(ck, maxn, maxv, maxk, switches):
    """the whole cut history of the real complete greedy against the model's trail (every interruption point, DRIFT level)"""
    r = ck.mc("CompleteGreedy", cg_cfg(maxn, maxv, maxk, switches, False, ["Emit"]), "GEN CompleteGreedy trails (incumbent value after every loop iteration)")
    recs = r.emitted
    traces = [t for p in core.pmap(drive.replay_cg_trail, recs) for t in p]
    fails = ck.judge("JDrift", traces, {"DRIFT"}, what="spec->code replay of CompleteGreedy cut histories (%d stimuli, every interruption point)" % len(recs), count_events=lambda t: len(t["m"]))
    ck.classify(fails, lambda fl: {"alg": "cg", "key": fl["trace"]["key"], "model": fl["trace"]["m"], "code": fl["trace"]["c"]})
    ck.cat("cg_trail_replays", len(recs))


def placement_traces(ck, stims):
    """code -> spec, stepwise: every add_item_to_bin of the real heuristic is stepped through the textbook machine (JHeur, DRIFT level)"""
    traces = core.pmap(drive.run_placements, stims)
    fails = ck.judge("JHeur", traces, {"DRIFT"}, what="placement traces of the simple heuristics stepped through the textbook machine (%d runs)" % len(traces), chunk=15000,
                     count_events=lambda t: len(t["adds"]))
    ck.classify(fails, lambda fl: {"alg": fl["trace"]["alg"], "vals": fl["trace"]["vals"], "k": fl["trace"]["k"], "C": fl["trace"]["C"], "at": fl["e"], "adds": fl["trace"]["adds"][:fl["e"]]})
    ck.cat("placement_traces", len(traces))


def ilp_mc(ck, quick):
    """the ILP partitioner with the solver as a nondeterministic oracle (any status, any optimal answer); negative control: sorting always (the pre-repair code)"""
    base = ("CONSTANTS MaxN = %d MaxV = 3 MaxK = %d Weights = {1, 2} Copies = {0, 1, 2} Statuses = {\"OPTIMAL\", \"FEASIBLE\", \"INFEASIBLE\", \"NO_SOLUTION_FOUND\"} SortAlways = %s\n"
            "INIT Init\nNEXT Next\nINVARIANT CopiesHonoured\nINVARIANT OrderOrCorrespondence\nINVARIANT ConstraintHolds\nINVARIANT OptimalAmongConstrained\nINVARIANT RefusesUnlessOptimal\n")
    ck.mc("ILP", base % (2, 2 if quick else 3, "FALSE"), "MC ILP machine with oracle solver: every status and every optimal answer leads to a result that honours copies, order/correspondence, constraint, optimality",
          coverage=True, required_actions=("Solve", "Raise", "Extract"))
    r = ck.mc("ILP", base % (2, 2, "TRUE"), "negative control: sorting the result by raw sum regardless of the weights breaks the bin<->weight correspondence", expect_violation=None)
    if not r.violated:
        raise core.Machinery("negative control of ILP.tla: TLC found no counterexample with SortAlways = TRUE")
    ck.violations = [v for v in ck.violations if not v[0].startswith("model:ILP")]
    ck.cat("ilp_negative_control_counterexample_found", 1)
