"""Generates /verif/MANIFEST.json from the table below (kept next to the checks so it cannot drift)."""
import json, os, sys

VERIF = os.path.dirname(os.path.dirname(os.path.abspath(__file__)))
ALL = ["C%02d" % i for i in range(1, 21)]

# id -> (technique, level text, level note, design ref)
CHECKS = {
 "C01": ("TLC trace validation (JPart judge, Contract.IsTruePartition) of executions on a TLC-enumerated input scope; L1 machines model-checked",
         "Every partitioner is executed on every input of a TLC-enumerated bounded universe (all bags, all k, all 48 complete-greedy configurations, three presentations) and on seeded families; each recorded call/return is accepted or rejected by TLC against the L0 contract clause. Bounded-exhaustive + sampled, not a proof.",
         "Trusted: TLC/SANY/CommunityModules, Contract.tla, the harness's name<->id mapping; totals < 2^31.", "7 C01"),
 "C02": ("TLC trace validation (JPart judge, Contract.ValueOfResult = Oracles.Opt computed in TLA+; beyond the oracle's size JWit: results against witness partitions that TLC checks itself) of executions of every exact partitioner on a TLC-enumerated input scope and seeded families",
         "dp (5 objectives, all k-parameters), complete greedy (16 switch combinations x 3 objectives), ckk, snp, rnp and sub-sampled ilp are executed on every bag of a TLC-enumerated bounded universe and on seeded random families; TLC recomputes the optimum from the problem definition and accepts or rejects each result. Bounded-exhaustive + sampled, not a proof.",
         "Trusted: TLC, Oracles.Opt (cross-validated against brute force in each run), harness name<->id mapping; ILP answers rejected once are re-solved with preprocessing off (solver-inconsistency rule of the property).", "7 C02"),
 "C08": ("TLC trace validation (JPart/JCert judges: integer forms of the published ratio bounds against Oracles.Opt or a TLC-checked certificate) of greedy, kk, multifit, round-robin executions",
         "Every heuristic is executed on every bag of a TLC-enumerated universe (optimum recomputed in TLA+), on the tight LPT family and on planted perfect partitions with up to hundreds of items whose optimum is certified by TLC; ratio, gap and round-robin shape clauses judged by TLC.",
         "Trusted: TLC, Oracles.Opt, certificate check in JCert.tla.", "7 C08"),
 "C12": ("TLC trace validation (JPart judge: cardinality gap and Oracles.OptBalanced over all subsets) of cbldm executions on a TLC-enumerated scope and seeded families",
         "cbldm is executed on every bag (n<=7/9, values 0..5) under every cardinality bound in {1,2,3,n-1,n,n+3,default} and on all-ones / near-equal / random families up to 12 items; TLC recomputes the constrained optimum by subset enumeration.",
         "Trusted: TLC, Oracles.OptBalanced.", "7 C12"),
 "C03": ("TLC trace validation (JPack judge: Contract feasibility clauses) of ff, ffd, bf, bfd and bin-completion executions on every arrival sequence of a TLC-enumerated scope, dyadic inputs and seeded families",
         "Every packer is executed on every sequence of <=5 values (C in {4,6}; eighths for the fit heuristics) with output types PartitionAndSumsTuple, BinCount and Sums, and on seeded 6-14 item families; TLC checks each bin <= binsize, every item exactly once (bin-completion may drop zeros), no empty bin, count = number of bins.",
         "Trusted: TLC, Contract.tla, value matching of plain-list results to ids.", "7 C03"),
 "C04": ("TLC trace validation (JPack judge: number of bins = Oracles.MinBins, a subset DP evaluated by TLC) of bin-completion executions",
         "bin-completion is executed on every sequence of <=5 values in 1..C (C in {4,6}) and on seeded 6-12 item families where BFD misses the lower bound; TLC recomputes the minimum number of bins and compares the Partition, Sums and BinCount outputs with it and with the textbook FFD/BFD counts.",
         "Trusted: TLC, Oracles.MinBins (cross-validated against an independent recursion in every run).", "7 C04"),
 "C05": ("TLC trace validation (JPack judge: Contract.ValidCover) of decreasing / two-thirds / three-quarters executions on a TLC-enumerated scope and seeded families, list and dict input",
         "The three covers are executed on every sequence of <=5 positive values up to C+2 (C in {4,6}) as list and as dict, and on seeded families up to 40 items; TLC checks every bin >= binsize, items used at most once, leftovers < binsize.",
         "Trusted: TLC, Contract.tla.", "7 C05"),
 "C06": ("TLC trace validation (JPart/JPack judges: Contract.SumsDescribeBins and OutputTypes.Disagrees) of every algorithm called with each of the ten output types",
         "Every partitioning / packing / covering algorithm is called on every input of a TLC-enumerated universe and seeded families with all ten output types; TLC checks sums against bins and each cheaper output against the value derived from the full output.",
         "Trusted: TLC, OutputTypes.tla, exact float->integer normalisation.", "7 C06"),
 "C07": ("TLC trace validation (JPart/JPack judges: C07 clauses comparing the same call across list / numpy array / dict / names+valueof presentations, falsy names, narrow and fixed-width numpy arrays, numpy scalars in lists / dicts, values scaled by a common factor of 1e8)",
         "Every algorithm is called on every input of a TLC-enumerated universe and seeded families in four presentations; TLC compares the bags of sums and checks that named results are valid over the names and reproduce the sums.",
         "Trusted: TLC, the harness's name<->id bijection.", "7 C07"),
 "C09": ("TLC trace validation (JPack/JCertPack judges: Contract.AnyFitInvariant, integer forms of the 1.7 / 11/9 bounds against Oracles.MinBins or a TLC-checked certificate)",
         "ff, ffd, bf, bfd are executed on every arrival order of a TLC-enumerated scope (C in {4,6,12}, eighths), seeded families, classical bad families and planted perfect packings up to 300 items; TLC checks the any-fit invariant on the placement order and the bin-count bounds.",
         "Trusted: TLC, Oracles.MinBins, certificate check in JCertPack.tla.", "7 C09"),
 "C10": ("TLC trace validation (JPack/JCertPack judges: covered-bin counts against Oracles.MaxCover or a TLC-checked certificate / witness cover)",
         "The three covers are executed on every sequence of a TLC-enumerated scope, seeded families <=12 items, the published worst-case families generalised in k, and planted exact covers up to 300 items; TLC checks the three guarantees and <= OPT.",
         "Trusted: TLC, Oracles.MaxCover (cross-validated in every run), certificates.", "7 C10"),
 "C14": ("TLC trace validation (JPart/JPack judges: result = Textbook.tla transcription of the documented rule) + TLC model checking of the textbook machines against the contract",
         "Greedy, round-robin, ff, ffd, bf, bfd and the three covers are executed on every arrival sequence of a TLC-enumerated scope (all tie patterns, exact fills, items at binsize/2 and binsize/3) and seeded families; TLC compares bag of sums (all) and bins as bags of values (rr, ff, ffd, covers) with the rule; the rule machines are model-checked against L0 and tie freedom shown irrelevant.",
         "Trusted: TLC, Textbook.tla as the reading of the documentation.", "7 C14"),
 "C19": ("TLC trace validation (JPack C19 clause, JRefuse judge, JBigRefuse with two-limb comparison at bin sizes 2^53 / 1e16) of TLC-enumerated malformed requests: oversize items at every position / multiplicity x format x output type x packer; stepwise trace specification JScan over request histories (capacity scans in one interpreter: an oversize request is refused whatever was asked before); cbldm calls with exactly one invalid argument",
         "TLC enumerates every sequence with >=1 oversize item (<=5 items) and every cbldm call with one invalid argument; each is executed in list/dict/valueof presentation and all ten output types; TLC requires ValueError (and an answer for the all-valid control); numitems probed on both managers.",
         "Trusted: TLC.", "7 C19"),
 "C13": ("TLC model checking of the transcribed bounds (Bounds.tla admissible w.r.t. Oracles.BestReach) + TLC trace validation (J13 judge) of direct calls to Objective.lower_bound, InExclusionBinTree.generate_tree and Binner.all_combinations on TLC-enumerated universes",
         "TLC enumerates every ascending sum vector x remaining total, every item sequence x half-integer window, every pair of bins-arrays; the real extension points are called on each (flag on/off, permuted input, container types, both managers); TLC judges admissibility against BestReach, flag/order independence and exact-once completeness against SubsetsInWindow / DistinctPairings.",
         "Trusted: TLC, Oracles.tla.", "7 C13"),
 "C16": ("TLC model checking (BinnerRef: numpy-view / shared-list reference semantics refines BinnerVal under the hand-over discipline; negative control without it) + TLC trace specification JBinner stepping recorded histories of the real bins-managers through BinnerVal's guards and results",
         "TLC enumerates every operation history to depth 4/5 and simulates deep walks; each is replayed on BinnerKeepingContents and BinnerKeepingSums with the projected state of all live arrays recorded after every operation; the trace spec accepts a history only if every step is the documented effect, disturbs no other live array, alters no argument, and keeps sums consistent.",
         "Trusted: TLC, BinnerVal.tla as the reading of the documented effects, the projection through sums/numbins/numitems.", "7 C16"),
 "C20": ("TLC model checking (ObjGen: documented fast path = slow path on sorted vectors) + TLC trace validation (JObj judge: value = ObjectivesDoc.tla, exact rationals for the weighted objective) of value_to_minimize on every TLC-enumerated sum sequence",
         "TLC enumerates every sequence of <=4/5 sums; the six built-in objectives are evaluated on each as list / tuple / int array / float array, every k in 1..n+2, weight vectors, slow and (on sorted vectors) fast path; TLC compares with the documented definition.",
         "Trusted: TLC, ObjectivesDoc.tla, float->fraction normalisation of the weighted value.", "7 C20"),
 "C11": ("TLC model checking of the abstract anytime search (Anytime.tla: ResultValid, Monotone, OptimalWhenExhausted) + TLC trace specification JAnytime stepping the complete CUT HISTORY (one run per clock reading under a counting clock) of complete greedy, CBLDM and the CKK generator",
         "With a deterministic counting clock installed as the modules' time attribute, every possible cut point c = 1..R of every run on a TLC-enumerated universe (3 objectives x switch combinations; CBLDM bounds) is executed; TLC steps each history: None or a true partition, never worse with a larger limit, first complete-greedy solution = LPT, unlimited result optimal; generator yields valid, strictly improving, snapshot-stable.",
         "Trusted: TLC, Oracles.Opt/OptBalanced, the counting clock (logical cut points only, no wall-clock behaviour).", "7 C11"),
 "C15": ("TLC-generated call histories (Session.tla: every ordered pair of a 238-call menu exhaustively, simulated long histories; menu calls may name a caller-owned container that persists and is overwritten between calls) replayed in freshly forked interpreters + TLC trace specification JSession (return = fresh-interpreter return, arguments unchanged, state: history and containers already passed)",
         "A menu mixing all algorithms, presentations, output types, options and failing calls; TLC enumerates all ordered pairs and simulates long histories; each runs in one interpreter; TLC compares every return with the same call's return in a fresh interpreter under two hash seeds and the argument digests before/after.",
         "Trusted: TLC, canonical digest of results, process isolation by fork from a parent that only imported prtpy.", "7 C15"),
 "C17": ("TLC trace validation (JIlp judge: exhaustive enumeration of all assignments of item copies to weighted bins in TLA+) of ILP calls with copies / weights / additional constraints / injected solver statuses",
         "Seeded requests (values <=200, <=5 items, <=4 bins, copies scalar or per item, weights, three constraint forms feasible and infeasible, five objectives) plus every non-OPTIMAL status injected through a mip.Model.optimize wrapper; TLC judges copies, ascending order / bin-weight correspondence, constraints, optimality (S2 decides, S1 reported), refusal.",
         "Trusted: TLC, the MIP solver's claimed status (its answer is judged, not its search), re-solve rule.", "7 C17"),
 "C18": ("TLC trace validation (JMeta judge) of metamorphic groups: all/sampled permutations, scaling by {2,3,7,10,1024}, zero padding, and cross-algorithm agreement on 11-16 item instances",
         "Base inputs from TLC-enumerated universes and seeded families; every algorithm re-run on transformed inputs; TLC judges: exact -> same / multiplied optimum, sorting heuristics -> same / multiplied bag of sums, agreement among exact algorithms and no heuristic better.",
         "Trusted: TLC, ObjectivesDoc.tla.", "7 C18"),
}
PENDING = {}


def build():
    checks = []
    for pid in ALL:
        if pid not in CHECKS:
            continue
        tech, text, note, ref = CHECKS[pid]
        checks.append({
            "property_id": pid,
            "quick_cmd": "bin/check %s --tier quick" % pid,
            "thorough_cmd": "bin/check %s --tier thorough" % pid,
            "evidence_file": "evidence/%s.json" % pid,
            "replay_cmd_template": "bin/replay {path}",
            "engine": "tlc",
            "level_claimed": {"category": "model_checking", "text": text, "design_ref": "DESIGN.md section " + ref},
            "level_note": note,
            "technique": tech,
        })
    m = {
        "version": 1,
        "setup_cmd": "bin/setup",
        "hooks": {"guard": "PRTPY_VERIF", "enable": "no source hooks: all instrumentation is applied at run time by /verif/harness (recording binner, counting clock, mip wrapper); the guard name is reserved",
                  "baseline_off_cmd": "cd /repo && /venv/bin/python -m pytest -ra -q -p no:cacheprovider --timeout=900 --continue-on-collection-errors",
                  "source_commits": [], "add_only": True},
        "engines": [{"name": "tlc", "path": "/opt/veriftools/tla/tla2tools.jar", "serves_properties": [c["property_id"] for c in checks],
                     "kind_free_text": "TLC 1.8 model checker in three roles: MC of L1/L2 TLA+ models, GEN of stimuli, JUDGE of recorded executions (trace validation)"}],
        "checks": checks,
        "not_applicable": [{"property_id": p, "reason": PENDING.get(p, "check not built yet in this revision (planned: TLA+ contract clause + TLC judge, see DESIGN.md section 7)")}
                           for p in ALL if p not in CHECKS],
        "notes": "All checks: exit 0 held / 1 VIOLATION / 2 machinery failure. Known findings in known_findings.json. See DESIGN.md.",
    }
    return m


if __name__ == "__main__":
    m = build()
    with open(os.path.join(VERIF, "MANIFEST.json"), "w") as f:
        json.dump(m, f, indent=1)
    try:
        import jsonschema
        jsonschema.validate(m, json.load(open("/root/.vp/MANIFEST.schema.json")))
        print("MANIFEST.json valid,", len(m["checks"]), "checks")
    except ImportError:
        print("MANIFEST.json written (jsonschema not available to validate)")
