----------------------------- MODULE Heuristics -----------------------------
(***************************************************************************)
(* L1: the simple heuristics as STATE MACHINES - one action per item (per  *)
(* bin for the bidirectional covers) - built from the step operators of    *)
(* Textbook.tla, so that their invariants are checked at EVERY step, not   *)
(* only on the final result:                                               *)
(*   greedy, roundrobin     conservation; gap <= largest item; round-robin *)
(*                          cardinalities differ by <= 1 and sums are      *)
(*                          non-increasing in bin index                    *)
(*   ff, bf, ffd, bfd       every bin <= C; the any-fit invariant is       *)
(*                          inductive; no bin is empty once an item came   *)
(*   dec, tt, tq            every closed bin >= C; only the open bin may   *)
(*                          be short; every item used at most once         *)
(* Terminal states satisfy the L0 contract (C01, C03, C05, C08, C09).      *)
(***************************************************************************)
EXTENDS Contract, Textbook
CONSTANTS MaxN, MinV, MaxV, MaxK, Cs, Algs
VARIABLES alg, vals, k, C, st, pos, pc
vars == <<alg, vals, k, C, st, pos, pc>>
n == Len(vals)
IsPart == alg \in {"greedy", "roundrobin"}
IsFit  == alg \in {"ff", "bf", "ffd", "bfd"}
IsCov  == alg \in {"dec", "tt", "tq"}
Order == IF alg \in {"ff", "bf"} THEN IdSeq(n) ELSE SortDescIds(vals, IdSeq(n))

Init == /\ alg \in Algs
        /\ \E nn \in 1..MaxN : vals \in [1..nn -> MinV..MaxV]
        /\ IF alg \in {"greedy", "roundrobin"} THEN k \in 1..MaxK /\ C = 0 ELSE k = 0 /\ C \in Cs
        /\ (alg \in {"ff", "bf", "ffd", "bfd"} => \A i \in 1..Len(vals) : vals[i] <= C)
        /\ (alg \in {"dec", "tt", "tq"} => \A i \in 1..Len(vals) : vals[i] >= 1)
        /\ st = CASE alg \in {"greedy", "roundrobin"} -> Arr(k)
                  [] alg \in {"ff", "bf", "ffd", "bfd"} -> FitStart
                  [] alg = "dec" -> [cv |-> CovStart, lst |-> SortDescIds(vals, IdSeq(Len(vals)))]
                  [] alg = "tt"  -> [cv |-> CovStart, lst |-> SortDescIds(vals, IdSeq(Len(vals)))]
                  [] alg = "tq"  -> TQStart(vals, C)
        /\ pos = 1 /\ pc = "run"

PlaceGreedy == /\ pc = "run" /\ alg = "greedy" /\ pos <= n
               /\ st' = GreedyStep(st, vals, Order[pos]) /\ pos' = pos + 1 /\ UNCHANGED <<alg, vals, k, C, pc>>
Deal == /\ pc = "run" /\ alg = "roundrobin" /\ pos <= n
        /\ st' = PutIn(st, vals, Order[pos], ((pos - 1) % k) + 1) /\ pos' = pos + 1 /\ UNCHANGED <<alg, vals, k, C, pc>>
PlaceOrOpen == /\ pc = "run" /\ IsFit /\ pos <= n
               /\ st' = FitStep(IF alg \in {"ff", "ffd"} THEN "first" ELSE "best", st, vals, Order[pos], C)
               /\ pos' = pos + 1 /\ UNCHANGED <<alg, vals, k, C, pc>>
FillDec == /\ pc = "run" /\ alg = "dec" /\ Len(st.lst) > 0
           /\ st' = [cv |-> DecStepOp(st.cv, vals, Head(st.lst), C), lst |-> Tail(st.lst)] /\ UNCHANGED <<alg, vals, k, C, pc, pos>>
FillTT == /\ pc = "run" /\ alg = "tt" /\ Len(st.lst) > 0
          /\ st' = TTStepOp(st, vals, C) /\ UNCHANGED <<alg, vals, k, C, pc, pos>>
FillTQ == /\ pc = "run" /\ alg = "tq" /\ ~st.done
          /\ st' = TQStepOp(st, vals, C) /\ UNCHANGED <<alg, vals, k, C, pc, pos>>
Done == /\ pc = "run"
        /\ CASE IsPart \/ IsFit -> pos > n [] alg \in {"dec", "tt"} -> Len(st.lst) = 0 [] alg = "tq" -> st.done
        /\ pc' = "done" /\ UNCHANGED <<alg, vals, k, C, st, pos>>
Next == PlaceGreedy \/ Deal \/ PlaceOrOpen \/ FillDec \/ FillTT \/ FillTQ \/ Done

----------------------------------------------------------------------------
Placed == IF IsCov THEN {} ELSE { Order[j] : j \in 1..(pos - 1) }
AsRes(c, s) == [out |-> "ret", lists |-> c, sums |-> s, exact |-> TRUE]
\* partition heuristics, at every step
PartStep == IsPart =>
   /\ SeqRange(Flatten(st.c)) = Placed /\ Len(Flatten(st.c)) = pos - 1          \* conservation so far
   /\ st.s = BinSums(vals, st.c)
   /\ (pos > 1 => MaxSeq(st.s) - MinSeq(st.s) <= vals[Order[1]])                 \* gap within the largest item
   /\ (alg = "roundrobin" => RoundRobinShape(AsRes(st.c, st.s)))
\* fit heuristics, at every step: feasibility and the any-fit invariant are inductive
FitStepInv == IsFit =>
   /\ SeqRange(Flatten(st.c)) = Placed /\ Len(Flatten(st.c)) = pos - 1
   /\ st.s = BinSums(vals, st.c)
   /\ \A b \in 1..Len(st.s) : st.s[b] <= C
   /\ AnyFitInvariant(vals, C, AsRes(st.c, st.s))
   /\ (pos > 1 => NoEmptyBin(AsRes(st.c, st.s)))
\* covers, at every step: closed bins are covered, only the open bin may be short, nothing used twice
Unplaced == CASE alg \in {"dec", "tt"} -> st.lst [] alg = "tq" -> st.big \o st.med \o st.small [] OTHER -> <<>>
CovStepInv == IsCov =>
   /\ \A j \in 1..Len(st.cv.closed) : BinSum(vals, st.cv.closed[j]) >= C
   /\ BinSum(vals, st.cv.cur) < C
   /\ IsPermutationOfIds(Flatten(st.cv.closed) \o st.cv.cur \o Unplaced, n)
\* terminal states satisfy the L0 contract
FinalOK == pc = "done" =>
   /\ (IsPart => IsTruePartition(vals, k, AsRes(st.c, st.s), FALSE) /\ SumsDescribeBins(vals, AsRes(st.c, st.s)))
   /\ (IsFit  => FeasiblePacking(vals, C, AsRes(st.c, st.s), FALSE) /\ NoEmptyBin(AsRes(st.c, st.s)))
   /\ (IsCov  => ValidCover(vals, C, [out |-> "ret", lists |-> st.cv.closed]))
Terminates == <>(pc = "done")
=============================================================================
