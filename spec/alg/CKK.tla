-------------------------------- MODULE CKK --------------------------------
(***************************************************************************)
(* L1: prtpy/partitioning/complete_karmarkar_karp_sy.py (optimal and       *)
(* generator), one action per iteration of the main loop.                  *)
(*                                                                         *)
(* State: a DFS stack of heaps; a heap is a sequence of entries            *)
(* [d, q, a]: d = spread (largest - smallest sum) of the bins-array a,     *)
(* q = the insertion sequence number that breaks ties (heap_count, shared  *)
(* between a heap and its clones), a = [s, c] with sums ascending.  The    *)
(* top of a heap is the entry with the largest spread, oldest first.       *)
(*                                                                         *)
(* Step: pop a heap; bound = max - floor((total - max) / (k-1)) over all   *)
(* sums in the heap (prune if it cannot beat the incumbent); a heap with   *)
(* one array is a complete partition (leaf: improve or keep; a perfect     *)
(* partition ends the search); otherwise pop the two tops and push one     *)
(* clone per distinct combination (Binner.all_combinations: permutations   *)
(* in lexicographic order, de-duplicated by contents up to bin order),     *)
(* ordered so that the combination with the smallest top spread is         *)
(* explored first.                                                         *)
(* yields = the sequence of incumbents = what the generator yields.        *)
(***************************************************************************)
EXTENDS Contract, Json
CONSTANTS MaxN, MinV, MaxV, MaxK
VARIABLES vals, k, stack, cnt, best, bestDiff, pc, yields
vars == <<vals, k, stack, cnt, best, bestDiff, pc, yields>>
n == Len(vals)
None == <<>>
PermTable == [kk \in 1..MaxK |-> LexPerms(1..kk)]
Spread(a) == a.s[Len(a.s)] - a.s[1]
CanonBins(c) == SortSeq(c, LexLeq)
\* all_combinations of the contents-keeping manager: a sequence of arrays
AllComb(a1, a2) ==
   LET P == PermTable[k]
       mk(p) == SortArr([i \in 1..k |-> a1.s[p[i]] + a2.s[i]], [i \in 1..k |-> SortSeq(a1.c[p[i]] \o a2.c[i], <)])
   IN FoldLeft(LAMBDA acc, p: LET x == mk(p) IN IF \E j \in 1..Len(acc) : CanonBins(acc[j].c) = CanonBins(x.c) THEN acc ELSE Append(acc, x), <<>>, P)
TopIdx(h) == CHOOSE i \in 1..Len(h) : \A j \in 1..Len(h) : h[i].d > h[j].d \/ (h[i].d = h[j].d /\ h[i].q <= h[j].q)
DropAt(h, i) == SubSeq(h, 1, i - 1) \o SubSeq(h, i + 1, Len(h))
AllSums(h) == FoldLeft(LAMBDA acc, e: acc \o e.a.s, <<>>, h)

Init == /\ k \in 1..MaxK
        /\ \E nn \in 1..MaxN : vals \in { s \in [1..nn -> MinV..MaxV] : NonInc(s) }
        /\ stack = << [i \in 1..n |-> [d |-> IF k = 1 THEN 0 ELSE vals[i], q |-> i - 1,
                         a |-> [s |-> [b \in 1..k |-> IF b = k THEN vals[i] ELSE 0], c |-> [b \in 1..k |-> IF b = k THEN <<i>> ELSE <<>>]]]] >>
        /\ cnt = n /\ best = None /\ bestDiff = INF /\ pc = "loop" /\ yields = <<>>

Top == stack[Len(stack)]
Rest == SubSeq(stack, 1, Len(stack) - 1)
Bound(h) == LET all == AllSums(h)   mx == MaxSeq(all)
            IN IF k = 1 THEN 0 - INF ELSE mx - ((SumSeq(all) - mx) \div (k - 1))
Prune == /\ pc = "loop" /\ Len(stack) > 0 /\ Bound(Top) >= bestDiff
         /\ stack' = Rest /\ UNCHANGED <<vals, k, cnt, best, bestDiff, pc, yields>>
Leaf == /\ pc = "loop" /\ Len(stack) > 0 /\ Bound(Top) < bestDiff /\ Len(Top) = 1
        /\ IF Top[1].d < bestDiff
           THEN /\ best' = Top[1].a.c /\ bestDiff' = Top[1].d /\ yields' = Append(yields, Top[1].a.c)
                /\ pc' = IF Top[1].d = 0 THEN "done" ELSE "loop"
           ELSE UNCHANGED <<best, bestDiff, pc, yields>>
        /\ stack' = Rest /\ UNCHANGED <<vals, k, cnt>>
Branch == /\ pc = "loop" /\ Len(stack) > 0 /\ Bound(Top) < bestDiff /\ Len(Top) > 1
          /\ LET h == Top
                 i1 == TopIdx(h)    e1 == h[i1]    h1 == DropAt(h, i1)
                 i2 == TopIdx(h1)   e2 == h1[i2]   h2 == DropAt(h1, i2)
                 combs == AllComb(e1.a, e2.a)
                 newheaps == [j \in 1..Len(combs) |-> Append(h2, [d |-> Spread(combs[j]), q |-> cnt + j - 1, a |-> combs[j]])]
                 topd(hh) == hh[TopIdx(hh)].d
                 \* python: tmp_stack_extension.sort(key=topdiff) with topdiff = -spread: descending spread, stable; the last one is popped first
                 order == SortSeq([j \in 1..Len(combs) |-> j], LAMBDA x, y: topd(newheaps[x]) > topd(newheaps[y]) \/ (topd(newheaps[x]) = topd(newheaps[y]) /\ x < y))
             IN /\ stack' = Rest \o [j \in 1..Len(combs) |-> newheaps[order[j]]]
                /\ cnt' = cnt + Len(combs)
          /\ UNCHANGED <<vals, k, best, bestDiff, pc, yields>>
Finish == /\ pc = "loop" /\ Len(stack) = 0 /\ pc' = "done" /\ UNCHANGED <<vals, k, stack, cnt, best, bestDiff, yields>>
Next == Prune \/ Leaf \/ Branch \/ Finish

----------------------------------------------------------------------------
AsRes(b) == [out |-> "ret", lists |-> b]
Diff(b) == Value("diff", 0, BinSums(vals, b))
\* every heap on the stack holds every item exactly once across its arrays, and sums describe contents
HeapConserves(h) == /\ IsPermutationOfIds(Flatten([j \in 1..Len(h) |-> Flatten(h[j].a.c)]), n)
                    /\ \A j \in 1..Len(h) : h[j].a.s = BinSums(vals, h[j].a.c) /\ NonDec(h[j].a.s) /\ h[j].d = Spread(h[j].a)
Conservation == \A i \in 1..Len(stack) : HeapConserves(stack[i])
ResultValid == best = None \/ IsTruePartition(vals, k, AsRes(best), FALSE)
ResultNotNone == pc = "done" => best # None
Optimal == (pc = "done" /\ best # None) => Diff(best) = Opt("diff", 0, vals, k) /\ bestDiff = Diff(best)
\* C11: the generator yields only valid partitions, each strictly better than the previous, the last one optimal
YieldsImprove == /\ \A i \in 1..Len(yields) : IsTruePartition(vals, k, AsRes(yields[i]), FALSE)
                 /\ \A i \in 1..Len(yields) - 1 : Diff(yields[i + 1]) < Diff(yields[i])
                 /\ (pc = "done" => Len(yields) >= 1 /\ Diff(yields[Len(yields)]) = Opt("diff", 0, vals, k))
\* the bound never cuts a heap that could still beat the incumbent: every complete partition reachable from the heap has spread >= Bound(heap)
Emit == pc = "done" => PrintT("@@E " \o ToJson([vals |-> vals, k |-> k, best |-> best, yields |-> yields]))
=============================================================================
