------------------------------- MODULE Bounds -------------------------------
(***************************************************************************)
(* L1: the objective lower bounds of prtpy/objectives.py, transcribed with *)
(* exact integer arithmetic.  s is a sum vector in ASCENDING order, R the  *)
(* total of the items not yet placed.                                      *)
(*   LBminsum  water-filling of the smallest bins (Paul A. Robin), floor   *)
(*   LBmaxsum  max(current largest, ceil(average))                         *)
(*   LBdiff    their sum                                                   *)
(* Admissibility (C13): LB(o, s, R) <= BestReach(o, s, R).                 *)
(***************************************************************************)
EXTENDS Oracles

RECURSIVE WaterFill(_,_,_)
WaterFill(s, i, rem) ==
   IF i > Len(s) - 1 THEN 0 - (rem \div Len(s))
   ELSE IF rem <= i * s[i + 1] THEN 0 - (rem \div i)
   ELSE WaterFill(s, i + 1, rem + s[i + 1])
LBminsum(s, R) == WaterFill(s, 1, R + s[1])
LBmaxsum(s, R) == Max({ s[Len(s)], CeilDiv(SumSeq(s) + R, Len(s)) })
LBdiff(s, R)   == LBminsum(s, R) + LBmaxsum(s, R)
LB(o, s, R) == CASE o = "minsum" -> LBminsum(s, R) [] o = "maxsum" -> LBmaxsum(s, R) [] o = "diff" -> LBdiff(s, R)
Admissible(o, s, R) == LB(o, s, R) <= BestReach(o, s, R)
=============================================================================
