------------------------------- MODULE CBLDM -------------------------------
(***************************************************************************)
(* L1: prtpy/partitioning/cbldm.py (complete balanced largest differencing *)
(* method), the recursion CBLDM_algo.part as an explicit DFS stack; one    *)
(* action per call of part().                                              *)
(*                                                                         *)
(* A node is a sequence of two-bin sub-partitions [s, c] (sums ascending). *)
(*   Leaf    one sub-partition left: accept it iff its cardinality gap is  *)
(*           within the bound d and its sum gap is strictly smaller than   *)
(*           the incumbent's; a perfect accepted leaf ends the search      *)
(*   Prune   2*max - total of the sum gaps cannot beat the incumbent, or   *)
(*           2*max - total of the cardinality gaps cannot meet the bound   *)
(*   Branch  (after sorting by decreasing sum gap when the node is short   *)
(*           enough) replace the two leading sub-partitions by their       *)
(*           DIFFERENCE (explored first) or by their SUM                   *)
(*   Interrupt  the time limit fires: every pending call returns at once   *)
(***************************************************************************)
EXTENDS Contract, Json
CONSTANTS MaxN, MinV, MaxV, Ds, AllowInterrupt
VARIABLES vals, d, stack, best, sumDelta, pc, trail
vars == <<vals, d, stack, best, sumDelta, pc, trail>>
n == Len(vals)
None == <<>>
AbsI(x) == IF x < 0 THEN 0 - x ELSE x
SumGap(p) == AbsI(p.s[1] - p.s[2])
LenGap(p) == AbsI(Len(p.c[1]) - Len(p.c[2]))
Sort2(s, c) == LET a == SortArr(s, c) IN [s |-> a.s, c |-> a.c]
\* python: list.sort(key=-sum_difference) is stable
StableDesc(node) ==
   LET idx == SortSeq([i \in 1..Len(node) |-> i], LAMBDA a, b: SumGap(node[a]) > SumGap(node[b]) \/ (SumGap(node[a]) = SumGap(node[b]) /\ a < b))
   IN [i \in 1..Len(node) |-> node[idx[i]]]
Combined(p, q) == Sort2(<<p.s[1] + q.s[1], p.s[2] + q.s[2]>>, <<p.c[1] \o q.c[1], p.c[2] \o q.c[2]>>)
Split(p, q)    == Sort2(<<p.s[2] + q.s[1], p.s[1] + q.s[2]>>, <<p.c[2] \o q.c[1], p.c[1] \o q.c[2]>>)

Init == /\ \E nn \in 1..MaxN : vals \in { s \in [1..nn -> MinV..MaxV] : NonInc(s) }
        /\ d \in Ds
        /\ stack = << [i \in 1..n |-> [s |-> <<0, vals[i]>>, c |-> << <<>>, <<i>> >>]] >>
        /\ best = None /\ sumDelta = INF /\ pc = "loop" /\ trail = <<>>

Top == stack[Len(stack)]
Rest == SubSeq(stack, 1, Len(stack) - 1)
SumOver(f(_), node) == FoldLeft(LAMBDA acc, p: acc + f(p), 0, node)
MaxOver(f(_), node) == Max({ f(node[i]) : i \in 1..Len(node) } \cup {0})
PrunedBySum(node) == 2 * MaxOver(SumGap, node) - SumOver(SumGap, node) >= sumDelta
PrunedByLen(node) == 2 * MaxOver(LenGap, node) - SumOver(LenGap, node) > d
Tick == trail' = Append(trail, IF best' = None THEN 0 - 1 ELSE sumDelta')

Leaf == /\ pc = "loop" /\ Len(stack) > 0 /\ Len(Top) = 1
        /\ LET p == Top[1]
           IN IF LenGap(p) <= d /\ SumGap(p) < sumDelta
              THEN /\ best' = p.c /\ sumDelta' = SumGap(p) /\ pc' = IF SumGap(p) = 0 THEN "done" ELSE "loop"
              ELSE UNCHANGED <<best, sumDelta, pc>>
        /\ stack' = Rest /\ UNCHANGED <<vals, d>> /\ Tick
Prune == /\ pc = "loop" /\ Len(stack) > 0 /\ Len(Top) > 1 /\ (PrunedBySum(Top) \/ PrunedByLen(Top))
         /\ stack' = Rest /\ UNCHANGED <<vals, d, best, sumDelta, pc>> /\ Tick
Branch == /\ pc = "loop" /\ Len(stack) > 0 /\ Len(Top) > 1 /\ ~PrunedBySum(Top) /\ ~PrunedByLen(Top)
          /\ LET node == IF 2 * Len(Top) <= n + (n % 2) THEN StableDesc(Top) ELSE Top      \* len <= ceil(n/2)
                 tail == SubSeq(node, 3, Len(node))
                 left == Append(tail, Split(node[1], node[2]))
                 right == Append(tail, Combined(node[1], node[2]))
             IN stack' = Rest \o <<right, left>>                                           \* left (differencing) is explored first
          /\ UNCHANGED <<vals, d, best, sumDelta, pc>> /\ Tick
Finish == /\ pc = "loop" /\ Len(stack) = 0 /\ pc' = "done" /\ UNCHANGED <<vals, d, stack, best, sumDelta, trail>>
Interrupt == /\ AllowInterrupt /\ pc = "loop" /\ pc' = "cut" /\ UNCHANGED <<vals, d, stack, best, sumDelta, trail>>
Next == Leaf \/ Prune \/ Branch \/ Finish \/ Interrupt

----------------------------------------------------------------------------
AsRes(b) == [out |-> "ret", lists |-> b]
Gap(b) == LET s == BinSums(vals, b) IN AbsI(s[1] - s[2])
\* every node holds every item exactly once across its sub-partitions; sums describe contents
NodeConserves(node) == /\ IsPermutationOfIds(Flatten([j \in 1..Len(node) |-> node[j].c[1] \o node[j].c[2]]), n)
                       /\ \A j \in 1..Len(node) : node[j].s = BinSums(vals, node[j].c) /\ node[j].s[1] <= node[j].s[2]
Conservation == \A i \in 1..Len(stack) : NodeConserves(stack[i])
\* C11 / C12: whenever it stops, the result is the no-solution value or a true 2-partition within the cardinality bound
ResultValid == best = None \/ (IsTruePartition(vals, 2, AsRes(best), FALSE) /\ AbsI(Len(best[1]) - Len(best[2])) <= d /\ Gap(best) = sumDelta)
\* C12: a completed run is optimal under the bound (and finds a solution whenever one exists)
Feasible == \E S \in SUBSET (1..n) : AbsI(n - 2 * Cardinality(S)) <= d
Optimal == pc = "done" => IF Feasible THEN best # None /\ sumDelta = OptBalanced(vals, d) ELSE best = None
Monotone == [][sumDelta' <= sumDelta /\ (best # None => best' # None)]_vars
Emit == pc = "done" => PrintT("@@E " \o ToJson([vals |-> vals, d |-> d, best |-> best, calls |-> Len(trail) + Len(stack)]))
=============================================================================
