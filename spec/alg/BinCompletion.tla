--------------------------- MODULE BinCompletion ---------------------------
(***************************************************************************)
(* L1 (abstract): the bin-completion packer (Korf 2002; prtpy/packing/      *)
(* bin_completion.py and bin_completion_utils.py), decomposed the way its  *)
(* correctness argument goes:                                              *)
(*                                                                         *)
(*  (A) DOMINANCE IS SAFE.  A completion c' of the bin holding x dominates *)
(*      a completion c when the items of c can be packed into bins whose   *)
(*      sizes are the items of c' (is_dominant).  Then replacing c by c'   *)
(*      never costs a bin:  MinBins(rest - c') <= MinBins(rest - c).       *)
(*      DominanceSafe states this for every bag in scope; TLC checks it.   *)
(*  (B) COVERING.  The completions offered for a bin (find_bin_completions)*)
(*      need not be all feasible ones, but every feasible completion must  *)
(*      be dominated by an offered one.  This is the contract of the real  *)
(*      function; it is judged on direct calls (JBC.tla).                  *)
(*  (C) THE SEARCH.  With (A) and (B), branching over the offered          *)
(*      completions of the bin holding the largest remaining item, pruning *)
(*      a branch when bins used + remaining/binsize cannot beat the        *)
(*      incumbent, stopping at the lower bound ceil(total/binsize), ends   *)
(*      with the minimum number of bins.  The machine below uses the       *)
(*      canonical covering set (all undominated feasible completions) and  *)
(*      the code's pruning rules; TLC checks Optimal and the search-safety *)
(*      invariant at every step.                                           *)
(* Values are positive integers <= C (zero-valued items are dropped by the *)
(* code before the search).                                                *)
(***************************************************************************)
EXTENDS Contract, Textbook, Json
CONSTANTS MaxN, MaxV, Cs
VARIABLES vals, C, branches, bestN, pc
vars == <<vals, C, branches, bestN, pc>>
n == Len(vals)

\* ---- (A) dominance -------------------------------------------------------
\* c1, c2: sets of ids.  c1 dominates c2: some assignment of the items of c2 to the items of c1 respects every capacity
Dominates(c1, c2) ==
   IF c2 = {} THEN TRUE
   ELSE IF c1 = {} THEN FALSE
   ELSE \E f \in [c2 -> c1] : \A a \in c1 : SumOfIds(vals, { b \in c2 : f[b] = a }) <= vals[a]
FeasibleComps(x, rest) == { c \in SUBSET rest : vals[x] + SumOfIds(vals, c) <= C }
SubVals(S) == LET q == SetToSortSeq(S, <) IN [j \in 1..Len(q) |-> vals[q[j]]]
MinBinsOf(S) == IF S = {} THEN 0 ELSE MinBins(SubVals(S), C)
\* the safety lemma, for the bin that holds the largest item of the whole input
Largest(S) == CHOOSE x \in S : \A y \in S : vals[x] > vals[y] \/ (vals[x] = vals[y] /\ x <= y)
DominanceSafe ==
   LET all == 1..n   x == Largest(all)   rest == all \ {x}
   IN \A c \in FeasibleComps(x, rest) : \A c2 \in FeasibleComps(x, rest) :
         Dominates(c2, c) => MinBinsOf(rest \ c2) <= MinBinsOf(rest \ c)
\* consequently the canonical covering set loses nothing
Undominated(x, rest) ==
   LET F == FeasibleComps(x, rest)
   IN { c \in F : ~\E c2 \in F : c2 # c /\ Dominates(c2, c) /\ ~Dominates(c, c2) }
CoverLosesNothing ==
   LET all == 1..n   x == Largest(all)   rest == all \ {x}
   IN 1 + Min({ MinBinsOf(rest \ c) : c \in Undominated(x, rest) }) = MinBinsOf(all)

\* ---- (C) the search --------------------------------------------------------
\* a branch: the items still unpacked and the number of bins opened so far
LB == CeilDiv(SumSeq(vals), C)
BFDCount(v, cap) == Len(PackRun("bfd", v, cap).s)
Init == /\ C \in Cs
        /\ \E nn \in 1..MaxN : vals \in { s \in [1..nn -> 1..MaxV] : NonInc(s) /\ \A i \in 1..nn : s[i] <= C }
        /\ branches = { [rem |-> 1..Len(vals), nb |-> 0] }
        /\ bestN = BFDCount(vals, C)
        /\ pc = IF BFDCount(vals, C) = CeilDiv(SumSeq(vals), C) THEN "done" ELSE "search"
\* python: partial_lower_bound = numbins + sum(remaining)/binsize >= best  (a real-number comparison)
CannotBeat(nb, rem) == nb * C + SumOfIds(vals, rem) >= bestN * C
Expand(br) ==
   /\ pc = "search" /\ br \in branches /\ br.rem # {}
   /\ LET x == Largest(br.rem)   rest == br.rem \ {x}
          K == Undominated(x, rest)
          kids == { [rem |-> rest \ c, nb |-> br.nb + 1] : c \in K }
          live == { b \in kids : ~CannotBeat(b.nb, b.rem) \/ (b.rem = {} /\ b.nb < bestN) }
          done == { b \in kids : b.rem = {} /\ b.nb < bestN }
      IN /\ bestN' = IF done = {} THEN bestN ELSE Min({ b.nb : b \in done })
         /\ branches' = (branches \ {br}) \cup { b \in live : b.rem # {} }
         /\ pc' = IF bestN' = LB THEN "done" ELSE "search"
   /\ UNCHANGED <<vals, C>>
Finish == /\ pc = "search" /\ branches = {} /\ pc' = "done" /\ UNCHANGED <<vals, C, branches, bestN>>
ExpandSome == \E br \in branches : Expand(br)
Next == ExpandSome \/ Finish
\* the optimum is always the incumbent or still reachable from a live branch
SearchSafe == pc = "search" => Min({bestN} \cup { br.nb + MinBinsOf(br.rem) : br \in branches }) = MinBins(vals, C)
Optimal == pc = "done" => bestN = MinBins(vals, C)
=============================================================================
