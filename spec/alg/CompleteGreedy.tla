--------------------------- MODULE CompleteGreedy ---------------------------
(***************************************************************************)
(* L1: prtpy/partitioning/complete_greedy.py (anytime), one action per     *)
(* iteration of its main loop.                                             *)
(*                                                                         *)
(* Input (chosen in Init): a bag of items as a non-increasing sequence     *)
(* vals (ids 1..n in the order the code processes them after its stable    *)
(* descending sort), k bins, objective o, and the four pruning switches    *)
(*   sw.lb   use_lower_bound          sw.flb  use_fast_lower_bound         *)
(*   sw.h3   use_heuristic_3          sw.seen use_set_of_seen_states       *)
(* State: the DFS stack of nodes [sums (ascending), bins, depth], the      *)
(* incumbent (best, bestVal), the set of seen (depth, sums) states, and    *)
(* trail - the incumbent's value after every loop iteration (what a time   *)
(* limit firing at that point would return).                               *)
(*                                                                         *)
(* Actions:  StepLeaf (improve / keep, early stop at the global bound),    *)
(*           StepH3 (heuristic 3), StepExpand (child loop: reversed bins,  *)
(*           equal-sum skip, fast bound, bound, seen-set), Finish,         *)
(*           Interrupt (the limit test fires; enabled in every loop state  *)
(*           when AllowInterrupt).                                         *)
(***************************************************************************)
EXTENDS Bounds, Textbook, Contract, Json
CONSTANTS MaxN, MinV, MaxV, MaxK, Objs, Switches, AllowInterrupt

VARIABLES vals, k, o, sw, stack, best, bestVal, seen, pc, trail, first
vars == <<vals, k, o, sw, stack, best, bestVal, seen, pc, trail, first>>
n == Len(vals)
Rem(d) == SumSeq(SubSeq(vals, d + 1, n))     \* python sums_of_remaining_items[d]
GlobalLB == LB(o, [b \in 1..k |-> 0], Rem(0))
None == <<>>

\* switch combinations are numbers 0..15 read as the bits lb, flb, h3, seen (cfg files cannot hold tuples): 13 = 1101
SwOf(m) == [lb |-> (m \div 8) % 2 = 1, flb |-> (m \div 4) % 2 = 1, h3 |-> (m \div 2) % 2 = 1, seen |-> m % 2 = 1]
Init == /\ k \in 1..MaxK
        /\ \E nn \in 1..MaxN : vals \in { s \in [1..nn -> MinV..MaxV] : NonInc(s) }
        /\ o \in Objs
        /\ sw \in { SwOf(s) : s \in Switches }
        /\ stack = << [sums |-> [b \in 1..k |-> 0], bins |-> [b \in 1..k |-> <<>>], depth |-> 0] >>
        /\ best = None /\ bestVal = INF
        /\ seen = { <<0, [b \in 1..k |-> 0]>> }
        /\ pc = "loop" /\ trail = <<>> /\ first = None

\* binner.sort_by_ascending_sum: python's stable sorted(range(k), key=sums)
SortNode(sums, bins) == LET a == SortArr(sums, bins) IN [sums |-> a.s, bins |-> a.c]

\* the child loop of complete_greedy.py: bins visited from index k down to 1
RECURSIVE Expand(_,_,_,_,_)
Expand(node, b, prev, stk, sn) ==
  IF b = 0 THEN [stack |-> stk, seen |-> sn]
  ELSE LET cs == node.sums   cur == cs[b]   d == node.depth   item == vals[d + 1]   rem == Rem(d + 1)
       IN IF prev # 0 - 1 /\ cur = prev THEN Expand(node, b - 1, prev, stk, sn)                 \* heuristic 1: equal sums
          ELSE LET flb == IF ~sw.flb THEN 0 - INF
                          ELSE CASE o = "maxsum" -> Max({cur + item, cs[k]})
                                 [] o = "minsum" -> 0 - ((IF b = 1 THEN (IF k > 1 THEN Min({cs[1] + item, cs[2]}) ELSE cs[1] + item) ELSE cs[1]) + rem)
                                 [] OTHER        -> 0 - INF
               IN IF flb >= bestVal THEN Expand(node, b - 1, cur, stk, sn)                       \* fast bound
                  ELSE LET nw == SortNode([cs EXCEPT ![b] = @ + item], [node.bins EXCEPT ![b] = Append(@, d + 1)])
                       IN IF sw.lb /\ LB(o, nw.sums, rem) >= bestVal THEN Expand(node, b - 1, cur, stk, sn)      \* objective bound
                          ELSE IF sw.seen /\ <<d + 1, nw.sums>> \in sn THEN Expand(node, b - 1, cur, stk, sn)    \* seen state
                          ELSE Expand(node, b - 1, cur, Append(stk, [sums |-> nw.sums, bins |-> nw.bins, depth |-> d + 1]),
                                      IF sw.seen THEN sn \cup { <<d + 1, nw.sums>> } ELSE sn)

Top == stack[Len(stack)]
Rest == SubSeq(stack, 1, Len(stack) - 1)
Tick(bv) == trail' = Append(trail, bv)
H3Applies(node) == sw.h3 /\ o = "maxsum" /\ Rem(node.depth) + node.sums[1] <= node.sums[k]

StepLeaf == /\ pc = "loop" /\ Len(stack) > 0 /\ Top.depth = n
            /\ LET v == Value(o, 0, Top.sums)
               IN IF v < bestVal
                  THEN /\ best' = Top.bins /\ bestVal' = v /\ Tick(v)
                       /\ first' = IF first = None THEN Top.bins ELSE first
                       /\ pc' = IF v <= GlobalLB THEN "done" ELSE "loop"
                  ELSE /\ UNCHANGED <<best, bestVal, pc, first>> /\ Tick(bestVal)
            /\ stack' = Rest /\ UNCHANGED <<vals, k, o, sw, seen>>
StepH3 == /\ pc = "loop" /\ Len(stack) > 0 /\ Top.depth < n /\ H3Applies(Top)
          /\ LET nd == Top
                 nw == SortNode([nd.sums EXCEPT ![1] = @ + Rem(nd.depth)], [nd.bins EXCEPT ![1] = @ \o [j \in 1..(n - nd.depth) |-> nd.depth + j]])
             IN stack' = Append(Rest, [sums |-> nw.sums, bins |-> nw.bins, depth |-> n])
          /\ Tick(bestVal) /\ UNCHANGED <<vals, k, o, sw, best, bestVal, seen, pc, first>>
StepExpand == /\ pc = "loop" /\ Len(stack) > 0 /\ Top.depth < n /\ ~H3Applies(Top)
              /\ LET r == Expand(Top, k, 0 - 1, Rest, seen) IN stack' = r.stack /\ seen' = r.seen
              /\ Tick(bestVal) /\ UNCHANGED <<vals, k, o, sw, best, bestVal, pc, first>>
Finish == /\ pc = "loop" /\ Len(stack) = 0 /\ pc' = "done"
          /\ UNCHANGED <<vals, k, o, sw, stack, best, bestVal, seen, trail, first>>
Interrupt == /\ AllowInterrupt /\ pc = "loop" /\ pc' = "cut"
             /\ UNCHANGED <<vals, k, o, sw, stack, best, bestVal, seen, trail, first>>
Next == StepLeaf \/ StepH3 \/ StepExpand \/ Finish \/ Interrupt
Spec == Init /\ [][Next]_vars /\ WF_vars(StepLeaf \/ StepH3 \/ StepExpand \/ Finish)

----------------------------------------------------------------------------
AsRes(b) == [out |-> "ret", lists |-> b]
Stopped == pc \in {"done", "cut"}
\* C01 / C11: whatever the stopping point, the result is None or a true partition; a completed run never yields None
ResultValid   == best = None \/ IsTruePartition(vals, k, AsRes(best), FALSE)
ResultNotNone == pc = "done" => best # None
\* conservation at every step, for every live search node: its bins hold exactly the items placed so far, each once
NodeConserves(nd) == /\ IsPermutationOfIds(Flatten(nd.bins), nd.depth)
                     /\ nd.sums = BinSums(vals, nd.bins) /\ NonDec(nd.sums)
Conservation  == \A j \in 1..Len(stack) : NodeConserves(stack[j])
BestConsistent == best # None => Value(o, 0, BinSums(vals, best)) = bestVal
\* C02: a completed run is optimal
Optimal == (pc = "done" /\ best # None) => bestVal = Opt(o, 0, vals, k)
\* branch-and-bound safety: at every moment the optimum is still reachable from the incumbent or from some live node
OptFrom(nd) == OptOver(o, 0, Reach(vals, nd.depth + 1, {nd.sums}, k))
BBSafe == pc = "loop" => Min({bestVal} \cup { OptFrom(stack[j]) : j \in 1..Len(stack) }) = Opt(o, 0, vals, k)
\* C11: the incumbent only improves; the first solution is the greedy one (heuristic 3 with min-max replaces it by an equally good one)
Monotone == [][bestVal' <= bestVal /\ (best # None => best' # None)]_vars
FirstIsLPT == first # None => IF sw.h3 /\ o = "maxsum" THEN Value(o, 0, BinSums(vals, first)) = Value(o, 0, GreedyRun(vals, k).s)
                                                       ELSE SameBag(BinSums(vals, first), GreedyRun(vals, k).s)
Terminates == <>(pc = "done")

\* GEN: the model's own answer travels with the stimulus (spec -> code replay)
SwStr == <<IF sw.lb THEN 1 ELSE 0, IF sw.flb THEN 1 ELSE 0, IF sw.h3 THEN 1 ELSE 0, IF sw.seen THEN 1 ELSE 0>>
Emit == pc = "done" => PrintT("@@E " \o ToJson([vals |-> vals, k |-> k, o |-> o, sw |-> SwStr, best |-> best, trail |-> [i \in 1..Len(trail) |-> IF trail[i] = INF THEN 0 - 1 ELSE trail[i]]]))
=============================================================================
