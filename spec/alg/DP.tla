--------------------------------- MODULE DP ---------------------------------
(***************************************************************************)
(* L1: prtpy/partitioning/dynamic_programming.py (_optimal_partition), one *)
(* action per item (layer).                                                *)
(* A layer is the set of reachable UNSORTED sum vectors (bin identity      *)
(* matters for the reconstruction), each with one back pointer.  The code  *)
(* keeps, for equal vectors, whichever record its set happened to keep and *)
(* finally takes min() over a set, whose iteration order is not specified: *)
(* the machine therefore leaves both choices open (any record of a vector, *)
(* any minimal final state) and is compared with the code on the objective *)
(* value and the L0 clauses only.                                          *)
(*   Layer   states' = { st with vals[i] added to bin b }                  *)
(*   Pick    any final state minimising the objective                      *)
(*   Rebuild replay the stored bin index of every item                     *)
(***************************************************************************)
EXTENDS Contract, Json
CONSTANTS MaxN, MinV, MaxV, MaxK, Objs
VARIABLES vals, k, o, kp, layer, i, pick, pc
vars == <<vals, k, o, kp, layer, i, pick, pc>>
n == Len(vals)
\* a record: the sum vector and the path (bin index of each item so far)
Init == /\ k \in 1..MaxK
        /\ \E nn \in 1..MaxN : vals \in [1..nn -> MinV..MaxV]
        /\ o \in Objs /\ kp \in (IF o \in {"klargest", "ksmallest"} THEN 1..(k + 1) ELSE {0})
        /\ layer = { [s |-> [b \in 1..k |-> 0], path |-> <<>>] }
        /\ i = 1 /\ pick = <<>> /\ pc = "layers"
\* one representative path per distinct sum vector (which one is unspecified)
Layer == /\ pc = "layers" /\ i <= n
         /\ LET all == { [s |-> [r.s EXCEPT ![b] = @ + vals[i]], path |-> Append(r.path, b)] : r \in layer, b \in 1..k }
                sumsOf == { r.s : r \in all }
                \* which record of a vector survives is unspecified in the code (set semantics); every invariant below depends on the
                \* record only through its sums and the consistency of its own path, so one representative (the least path) is explored
                PathLeq(p, q2) == \A j \in 1..Len(p) : (\A t \in 1..(j - 1) : p[t] = q2[t]) => p[j] <= q2[j]
                rep(sv) == CHOOSE r \in { x \in all : x.s = sv } : \A r2 \in { x \in all : x.s = sv } : PathLeq(r.path, r2.path)
            IN layer' = { rep(sv) : sv \in sumsOf }
         /\ i' = i + 1 /\ UNCHANGED <<vals, k, o, kp, pick, pc>>
Pick == /\ pc = "layers" /\ i > n
        /\ \E r \in layer : (\A r2 \in layer : Value(o, kp, r.s) <= Value(o, kp, r2.s)) /\ pick' = r.path
        /\ pc' = "done" /\ UNCHANGED <<vals, k, o, kp, layer, i>>
Next == Layer \/ Pick
Rebuilt == [b \in 1..k |-> SelectSeq([j \in 1..n |-> j], LAMBDA j: pick[j] = b)]
AsRes(c) == [out |-> "ret", lists |-> c]
\* layer i = exactly the sum vectors reachable by placing the first i-1 items
Complete == pc = "layers" => { r.s : r \in layer } = ReachU(SubSeq(vals, 1, i - 1), 1, {[b \in 1..k |-> 0]}, k)
PathsConsistent == \A r \in layer : Len(r.path) = i - 1 /\ r.s = [b \in 1..k |-> SumSeq([j \in 1..(i - 1) |-> IF r.path[j] = b THEN vals[j] ELSE 0])]
FinalOK == pc = "done" => /\ IsTruePartition(vals, k, AsRes(Rebuilt), FALSE)
                          /\ Value(o, kp, BinSums(vals, Rebuilt)) = Opt(o, kp, vals, k)
=============================================================================
