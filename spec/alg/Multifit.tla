------------------------------ MODULE Multifit ------------------------------
(***************************************************************************)
(* L1: prtpy/partitioning/multifit.py, one action per bisection step.      *)
(* Capacities are exact rationals <<num, den>> (the code uses floats; the  *)
(* replay compares the two).  lo = max(total/k, largest), hi = max(2*total *)
(* /k, largest); Probe: c = (lo+hi)/2, run first-fit-decreasing with       *)
(* capacity c; if it needs <= k bins then hi := c else lo := c; after      *)
(* `iters` probes the answer is first-fit-decreasing with capacity hi.     *)
(***************************************************************************)
EXTENDS Contract, Textbook, Json
CONSTANTS MaxN, MinV, MaxV, MaxK, Iters
VARIABLES vals, k, iters, lo, hi, step, pc
vars == <<vals, k, iters, lo, hi, step, pc>>
n == Len(vals)
Order == SortDescIds(vals, IdSeq(n))
\* first-fit over Order with rational capacity c: scale the values by den and use the integer capacity num
FFD(c) == FitRun("first", Order, [j \in 1..n |-> vals[j] * c[2]], c[1])
FFDCount(c) == Len(FFD(c).s)
Total == SumSeq(vals)
Init == /\ k \in 1..MaxK
        /\ \E nn \in 1..MaxN : vals \in { s \in [1..nn -> MinV..MaxV] : NonInc(s) }
        /\ iters \in Iters
        /\ lo = RMax(RNorm(<<Total, k>>), RInt(MaxSeq(vals)))
        /\ hi = RMax(RNorm(<<2 * Total, k>>), RInt(MaxSeq(vals)))
        /\ step = 0 /\ pc = "search"
Probe == /\ pc = "search" /\ step < iters
         /\ LET c == RNorm(<<lo[1] * hi[2] + hi[1] * lo[2], 2 * lo[2] * hi[2]>>)
            IN IF FFDCount(c) <= k THEN hi' = c /\ UNCHANGED lo ELSE lo' = c /\ UNCHANGED hi
         /\ step' = step + 1 /\ UNCHANGED <<vals, k, iters, pc>>
Final == /\ pc = "search" /\ step = iters /\ pc' = "done" /\ UNCHANGED <<vals, k, iters, lo, hi, step>>
Next == Probe \/ Final
Result == LET r == FFD(hi) IN [s |-> BinSums(vals, r.c), c |-> r.c]
AsRes(r) == [out |-> "ret", lists |-> r.c, sums |-> r.s, exact |-> TRUE]
\* the upper end of the search interval always admits a first-fit-decreasing packing into at most k bins
HiFeasible == FFDCount(hi) <= k /\ RLeq(lo, hi)
Pad(s) == s \o [j \in 1..(k - Len(s)) |-> 0]
FinalOK == pc = "done" =>
   /\ IsTruePartition(vals, k, AsRes(Result), TRUE)
   /\ (k >= 2 => MaxSeq(Pad(Result.s)) * 100 * (2 ^ iters) <= (122 * (2 ^ iters) + 100) * Opt("maxsum", 0, vals, k))
Emit == pc = "done" => PrintT("@@E " \o ToJson([vals |-> vals, k |-> k, it |-> iters, sums |-> SortAsc(Result.s), best |-> Result.c]))
=============================================================================
