------------------------------ MODULE Textbook ------------------------------
(***************************************************************************)
(* L1 step operators of the simple heuristics, transcribed from the rule   *)
(* stated in the documentation / cited source of each:                     *)
(*   LPT greedy, round-robin, first-fit, best-fit (online, decreasing),    *)
(*   next-fit-decreasing cover, two-thirds cover, three-quarters cover.    *)
(* Each rule is ONE step operator; the L1 machines (Greedy.tla, Fit.tla,   *)
(* Cover.tla) take one step per action, and the judges fold the same       *)
(* operator over the input, so model checking and trace validation use the *)
(* same text.  Where the rule leaves freedom (which least-loaded bin)      *)
(* `...Choices` gives every allowed choice and `...Pick` the one the       *)
(* implementation takes (first index).                                     *)
(***************************************************************************)
EXTENDS Prt

Arr(k) == [s |-> [b \in 1..k |-> 0], c |-> [b \in 1..k |-> <<>>]]
PutIn(st, vals, id, b) == [s |-> [st.s EXCEPT ![b] = @ + vals[id]], c |-> [st.c EXCEPT ![b] = Append(@, id)]]
OpenWith(st, vals, id) == [s |-> Append(st.s, vals[id]), c |-> Append(st.c, <<id>>)]

------------------------------------------------------------------------------
\* LPT: items by descending value, each to a bin with the least current sum.
GreedyChoices(st) == { b \in 1..Len(st.s) : \A c \in 1..Len(st.s) : st.s[b] <= st.s[c] }
GreedyPick(st)    == Min(GreedyChoices(st))
GreedyStep(st, vals, id) == PutIn(st, vals, id, GreedyPick(st))
GreedyRun(vals, k) == FoldLeft(LAMBDA st, id: GreedyStep(st, vals, id), Arr(k), SortDescIds(vals, IdSeq(Len(vals))))

\* Round-robin: items by descending value dealt cyclically.
RoundRobinRun(vals, k) ==
   LET ord == SortDescIds(vals, IdSeq(Len(vals)))
   IN FoldLeft(LAMBDA st, j: PutIn(st, vals, ord[j], ((j - 1) % k) + 1), Arr(k), IdSeq(Len(vals)))

------------------------------------------------------------------------------
\* First-fit / best-fit with capacity C.  The packing starts with one empty bin.
FitStart == [s |-> <<0>>, c |-> << <<>> >>]
FitsIn(st, vals, id, C) == { b \in 1..Len(st.s) : st.s[b] + vals[id] <= C }
FirstFitPick(st, vals, id, C) == Min(FitsIn(st, vals, id, C))
\* best fit: the fitting bin that becomes fullest; the earliest among equally full ones
BestFitChoices(st, vals, id, C) == LET F == FitsIn(st, vals, id, C) IN { b \in F : \A c \in F : st.s[b] >= st.s[c] }
BestFitPick(st, vals, id, C) == Min(BestFitChoices(st, vals, id, C))
FitStep(rule, st, vals, id, C) ==
   IF FitsIn(st, vals, id, C) = {} THEN OpenWith(st, vals, id)
   ELSE PutIn(st, vals, id, IF rule = "first" THEN FirstFitPick(st, vals, id, C) ELSE BestFitPick(st, vals, id, C))
FitRun(rule, order, vals, C) == FoldLeft(LAMBDA st, id: FitStep(rule, st, vals, id, C), FitStart, order)
FitOrder(decreasing, vals) == IF decreasing THEN SortDescIds(vals, IdSeq(Len(vals))) ELSE IdSeq(Len(vals))
\* alg in {"ff","ffd","bf","bfd"}
PackRun(alg, vals, C) == FitRun(IF alg \in {"ff","ffd"} THEN "first" ELSE "best", FitOrder(alg \in {"ffd","bfd"}, vals), vals, C)

------------------------------------------------------------------------------
\* Covering.  State: closed bins (each >= C), the open bin, remaining item lists.
CovStart == [closed |-> <<>>, cur |-> <<>>]
SV(vals, b) == BinSum(vals, b)
CloseIfFull(cv, vals, b, C) == IF SV(vals, b) >= C THEN [closed |-> Append(cv.closed, b), cur |-> <<>>]
                                                   ELSE [closed |-> cv.closed, cur |-> b]
\* next-fit-decreasing: put items (in the given order) into the open bin, close it as soon as it is covered
DecStepOp(cv, vals, id, C) == CloseIfFull(cv, vals, Append(cv.cur, id), C)
DecAll(cv, vals, lst, C) == FoldLeft(LAMBDA acc, id: DecStepOp(acc, vals, id, C), cv, lst)
CoverDecRun(vals, C) == DecAll(CovStart, vals, SortDescIds(vals, IdSeq(Len(vals))), C).closed

\* fill bin b with the smallest remaining items (from the end of lst) until covered
RECURSIVE FillSmall(_,_,_,_)
FillSmall(b, lst, vals, C) == IF Len(lst) = 0 \/ SV(vals, b) >= C THEN [b |-> b, lst |-> lst]
                              ELSE FillSmall(Append(b, lst[Len(lst)]), SubSeq(lst, 1, Len(lst) - 1), vals, C)
\* two-thirds: the largest remaining item, then smallest items until covered; one bin per step
TTStepOp(st, vals, C) ==
   LET f == FillSmall(Append(st.cv.cur, Head(st.lst)), Tail(st.lst), vals, C)
   IN [cv |-> CloseIfFull(st.cv, vals, f.b, C), lst |-> f.lst]
RECURSIVE TTLoop(_,_,_)
TTLoop(st, vals, C) == IF Len(st.lst) = 0 THEN st ELSE TTLoop(TTStepOp(st, vals, C), vals, C)
CoverTTRun(vals, C) == TTLoop([cv |-> CovStart, lst |-> SortDescIds(vals, IdSeq(Len(vals)))], vals, C).cv.closed

\* three-quarters: classes X (2v >= C), Y (3v >= C > 2v... i.e. C/3 <= v < C/2), Z (3v < C)
TQStart(vals, C) ==
   LET srt == SortDescIds(vals, IdSeq(Len(vals)))
   IN [cv |-> CovStart,
       big   |-> SelectSeq(srt, LAMBDA i: 2 * vals[i] >= C),
       med   |-> SelectSeq(srt, LAMBDA i: 3 * vals[i] >= C /\ 2 * vals[i] < C),
       small |-> SelectSeq(srt, LAMBDA i: 3 * vals[i] < C),
       done  |-> FALSE]
TQStepOp(st, vals, C) ==
   IF Len(st.small) = 0
   THEN [st EXCEPT !.cv = DecAll(DecAll(st.cv, vals, st.big, C), vals, st.med, C), !.big = <<>>, !.med = <<>>, !.done = TRUE]
   ELSE IF Len(st.big) = 0 /\ Len(st.med) = 0
   THEN [st EXCEPT !.cv = DecAll(st.cv, vals, st.small, C), !.small = <<>>, !.done = TRUE]
   ELSE LET bi == SubSeq(st.big, 1, Min({1, Len(st.big)}))
            mi == SubSeq(st.med, 1, Min({2, Len(st.med)}))
            useBig == SV(vals, bi) >= SV(vals, mi)
            f == FillSmall(st.cv.cur \o (IF useBig THEN bi ELSE mi), st.small, vals, C)
        IN [st EXCEPT !.cv = CloseIfFull(st.cv, vals, f.b, C),
                      !.big = IF useBig THEN SubSeq(st.big, Len(bi) + 1, Len(st.big)) ELSE st.big,
                      !.med = IF useBig THEN st.med ELSE SubSeq(st.med, Len(mi) + 1, Len(st.med)),
                      !.small = f.lst]
RECURSIVE TQLoop(_,_,_)
TQLoop(st, vals, C) == IF st.done THEN st ELSE TQLoop(TQStepOp(st, vals, C), vals, C)
CoverTQRun(vals, C) == TQLoop(TQStart(vals, C), vals, C).cv.closed

CoverRun(alg, vals, C) == CASE alg = "dec" -> CoverDecRun(vals, C)
                            [] alg = "tt"  -> CoverTTRun(vals, C)
                            [] alg = "tq"  -> CoverTQRun(vals, C)
=============================================================================
