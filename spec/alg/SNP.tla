-------------------------------- MODULE SNP --------------------------------
(***************************************************************************)
(* L1: prtpy/partitioning/sequential_number_partitioning_sy.py together    *)
(* with prtpy/inclusion_exclusion_tree.py, as one machine over bin SUMS    *)
(* with an explicit stack of frames.  A frame is one activation of         *)
(* rec_generate_sets with at least three bins to fill:                     *)
(*    items   the items still to be placed (ids, in the caller's order)    *)
(*    cur     number of bins still to be filled                            *)
(*    t       their total;  [lb, ub] the tree's window as exact rationals  *)
(*            - lb is RAISED whenever a deeper level improves the          *)
(*            incumbent (the code mutates tree.lower_bound of every tree)  *)
(*    dfs     the inclusion/exclusion tree's pending nodes [inc, rem]:     *)
(*            include-first depth-first order, bounds read at node entry   *)
(*    prior   the sums of the bins chosen by the enclosing frames          *)
(* TreeStep: prune / descend / yield.  A yielded subset S becomes the next *)
(* bin; with two bins left the rest is split two ways optimally (that is   *)
(* what CKK returns for two bins - CKK.tla; only the two sums matter, and  *)
(* they are determined) and the incumbent is improved if the combined      *)
(* difference is strictly smaller; otherwise a new frame is opened.        *)
(* The search starts from the Karmarkar-Karp partition (KKSums below is    *)
(* KK.tla's merge loop over sums only).                                    *)
(***************************************************************************)
EXTENDS Contract, Json
CONSTANTS MaxN, MinV, MaxV, Ks
VARIABLES vals, k, frames, best, bestDiff, calls, pc
vars == <<vals, k, frames, best, bestDiff, calls, pc>>
n == Len(vals)
AbsOf(x) == IF x < 0 THEN 0 - x ELSE x
Diff(s) == MaxSeq(s) - MinSeq(s)
SumIds(ids) == SumSeq([j \in 1..Len(ids) |-> vals[ids[j]]])
SortedDesc(ids) == SortSeq(ids, LAMBDA a, b: vals[a] > vals[b] \/ (vals[a] = vals[b] /\ a < b))

\* Karmarkar-Karp over sums (see KK.tla): heap entries [d, q, s]
KTop(h) == CHOOSE i \in 1..Len(h) : \A j \in 1..Len(h) : h[i].d > h[j].d \/ (h[i].d = h[j].d /\ h[i].q <= h[j].q)
KDrop(h, i) == SubSeq(h, 1, i - 1) \o SubSeq(h, i + 1, Len(h))
RECURSIVE KKLoop(_,_)
KKLoop(h, cnt) ==
   IF Len(h) <= 1 THEN h[1].s
   ELSE LET i1 == KTop(h)  e1 == h[i1]  h1 == KDrop(h, i1)
            i2 == KTop(h1) e2 == h1[i2] h2 == KDrop(h1, i2)
            ms == SortAsc([b \in 1..k |-> e1.s[b] + e2.s[k + 1 - b]])
        IN KKLoop(Append(h2, [d |-> ms[k] - ms[1], q |-> cnt, s |-> ms]), cnt + 1)
KKSums == LET ord == SortedDesc(IdSeq(n))
          IN KKLoop([i \in 1..n |-> [d |-> IF k = 1 THEN 0 ELSE vals[ord[i]], q |-> i - 1, s |-> [b \in 1..k |-> IF b = k THEN vals[ord[i]] ELSE 0]]], n)

Window(t, cur, d) == [lb |-> RNorm(<<t - (cur - 1) * d, cur>>), ub |-> RNorm(<<t, cur>>)]
Frame(items, cur, prior, d) ==
   LET t == SumIds(items)   w == Window(t, cur, d)
   IN [items |-> items, cur |-> cur, t |-> t, lb |-> w.lb, ub |-> w.ub, dfs |-> << [inc |-> <<>>, rem |-> SortedDesc(items)] >>, prior |-> prior]
\* the optimal two-way split of a sequence of ids: its two sums
TwoWaySums(items) ==
   LET t == SumIds(items)
       g == Min({ AbsOf(2 * SumOfIds(vals, A) - t) : A \in SUBSET SeqRange(items) })
   IN <<(t - g) \div 2, (t + g) \div 2>>
Without(items, S) == SelectSeq(items, LAMBDA x: x \notin SeqRange(S))

Init == /\ k \in Ks
        /\ \E nn \in 1..MaxN : vals \in [1..nn -> MinV..MaxV]
        /\ best = KKSums /\ bestDiff = Diff(KKSums) /\ calls = 0
        /\ IF Diff(KKSums) = 0 THEN frames = <<>> /\ pc = "done"
           ELSE IF k = 2 THEN frames = <<>> /\ pc = "base2"
           ELSE frames = << Frame(IdSeq(n), k, <<>>, Diff(KKSums)) >> /\ pc = "search"

\* k = 2: the top-level call is itself the two-way base case
Base2 == /\ pc = "base2"
         /\ LET s2 == TwoWaySums(IdSeq(n))
            IN IF Diff(s2) < bestDiff THEN best' = s2 /\ bestDiff' = Diff(s2) ELSE UNCHANGED <<best, bestDiff>>
         /\ calls' = calls + 1 /\ pc' = "done" /\ UNCHANGED <<vals, k, frames>>

Top == frames[Len(frames)]
Below == SubSeq(frames, 1, Len(frames) - 1)
Pruned(F, Nd) == RLt(F.ub, RInt(SumIds(Nd.inc))) \/ RLt(RInt(SumIds(Nd.inc) + SumIds(Nd.rem)), F.lb)
Raise(F, d) == [F EXCEPT !.lb = RNorm(<<F.t - (F.cur - 1) * d, F.cur>>)]

TreeStep ==
   /\ pc = "search" /\ Len(frames) > 0 /\ Len(Top.dfs) > 0
   /\ LET F == Top
          Nd == F.dfs[Len(F.dfs)]
          rest == SubSeq(F.dfs, 1, Len(F.dfs) - 1)
          F1 == [F EXCEPT !.dfs = rest]
      IN IF Pruned(F, Nd) THEN frames' = Append(Below, F1) /\ UNCHANGED <<best, bestDiff, calls>>
         ELSE IF Len(Nd.rem) > 0
         THEN /\ frames' = Append(Below, [F EXCEPT !.dfs = rest \o << [inc |-> Nd.inc, rem |-> Tail(Nd.rem)],
                                                                  [inc |-> Append(Nd.inc, Head(Nd.rem)), rem |-> Tail(Nd.rem)] >>])
              /\ UNCHANGED <<best, bestDiff, calls>>
         ELSE \* a leaf inside the window: Nd.inc is the next bin
              LET S == Nd.inc
                  left == Without(F.items, S)
                  prior2 == Append(F.prior, SumIds(S))
              IN IF F.cur - 1 = 2
                 THEN LET comb == TwoWaySums(left) \o prior2
                          d2 == Diff(comb)
                      IN /\ calls' = calls + 1
                         /\ IF d2 < bestDiff
                            THEN /\ best' = comb /\ bestDiff' = d2
                                 /\ frames' = [j \in 1..Len(frames) |-> Raise(IF j = Len(frames) THEN F1 ELSE frames[j], d2)]
                            ELSE frames' = Append(Below, F1) /\ UNCHANGED <<best, bestDiff>>
                 ELSE /\ frames' = Append(Append(Below, F1), Frame(left, F.cur - 1, prior2, bestDiff))
                      /\ UNCHANGED <<best, bestDiff, calls>>
   /\ UNCHANGED <<vals, k, pc>>
Return == /\ pc = "search" /\ Len(frames) > 0 /\ Len(Top.dfs) = 0
          /\ frames' = Below /\ UNCHANGED <<vals, k, best, bestDiff, calls, pc>>
Finish == /\ pc = "search" /\ Len(frames) = 0 /\ pc' = "done" /\ UNCHANGED <<vals, k, frames, best, bestDiff, calls>>
Next == Base2 \/ TreeStep \/ Return \/ Finish

----------------------------------------------------------------------------
\* the incumbent is always a reachable vector of k bin sums of the whole input, and its difference is bestDiff
IncumbentReal == SortAsc(best) \in FinalSums(vals, k) /\ Diff(best) = bestDiff
Monotone == [][bestDiff' <= bestDiff]_vars
\* C02: on completion the difference is optimal
Optimal == pc = "done" => bestDiff = Opt("diff", 0, vals, k)
\* search safety: while searching, an optimal difference is already held or still inside the windows - stated at the root:
\* if the incumbent is not optimal then the root frame is still alive
RootAliveUntilOptimal == (pc = "search" /\ bestDiff > Opt("diff", 0, vals, k)) => Len(frames) > 0
Emit == pc = "done" => PrintT("@@E " \o ToJson([vals |-> vals, k |-> k, sums |-> SortAsc(best), calls |-> calls]))
=============================================================================
