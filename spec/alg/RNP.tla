-------------------------------- MODULE RNP --------------------------------
(***************************************************************************)
(* L1: prtpy/partitioning/recursive_number_partitioning_sy.py for 2..5     *)
(* bins (the source says it works for 3, 4, 5 ways; with 6 or more bins    *)
(* the code fails - a recorded finding - and is not modelled), as a        *)
(* machine over bin SUMS with an explicit stack of frames:                 *)
(*   tree frame  (odd number of bins: 3 or 5)  peel one bin off with the   *)
(*               inclusion/exclusion tree whose window is fixed when the   *)
(*               frame is created, [ (t-(cur-1)d)/cur , t/cur ]            *)
(*   split frame (4 bins)  every two-way split of the items whose halves   *)
(*               differ by less than the incumbent's difference at entry   *)
(*               (that is what the CKK generator yields in bounded mode;   *)
(*               the order is immaterial for what is modelled here), each  *)
(*               half split two ways optimally; candidates are compared    *)
(*               by the difference over ALL bins including the peeled one  *)
(* Two bins: the optimal two-way split.  calls counts the two-way base     *)
(* cases (calls of ckk_optimal), which the replay compares with the code.  *)
(***************************************************************************)
EXTENDS Contract, Json
CONSTANTS MaxN, MinV, MaxV, Ks
VARIABLES vals, k, frames, best, bestDiff, calls, pc
vars == <<vals, k, frames, best, bestDiff, calls, pc>>
n == Len(vals)
AbsOf(x) == IF x < 0 THEN 0 - x ELSE x
Diff(s) == MaxSeq(s) - MinSeq(s)
SumIds(ids) == SumSeq([j \in 1..Len(ids) |-> vals[ids[j]]])
SortedDesc(ids) == SortSeq(ids, LAMBDA a, b: vals[a] > vals[b] \/ (vals[a] = vals[b] /\ a < b))
KTop(h) == CHOOSE i \in 1..Len(h) : \A j \in 1..Len(h) : h[i].d > h[j].d \/ (h[i].d = h[j].d /\ h[i].q <= h[j].q)
KDrop(h, i) == SubSeq(h, 1, i - 1) \o SubSeq(h, i + 1, Len(h))
RECURSIVE KKLoop(_,_)
KKLoop(h, cnt) ==
   IF Len(h) <= 1 THEN h[1].s
   ELSE LET i1 == KTop(h)  e1 == h[i1]  h1 == KDrop(h, i1)
            i2 == KTop(h1) e2 == h1[i2] h2 == KDrop(h1, i2)
            ms == SortAsc([b \in 1..k |-> e1.s[b] + e2.s[k + 1 - b]])
        IN KKLoop(Append(h2, [d |-> ms[k] - ms[1], q |-> cnt, s |-> ms]), cnt + 1)
KKSums == LET ord == SortedDesc(IdSeq(n))
          IN KKLoop([i \in 1..n |-> [d |-> IF k = 1 THEN 0 ELSE vals[ord[i]], q |-> i - 1, s |-> [b \in 1..k |-> IF b = k THEN vals[ord[i]] ELSE 0]]], n)
TwoWaySums(S) ==      \* S: a set of ids
   LET t == SumOfIds(vals, S)
       g == Min({ AbsOf(2 * SumOfIds(vals, A) - t) : A \in SUBSET S })
   IN <<(t - g) \div 2, (t + g) \div 2>>
\* unordered two-way splits of a set whose halves differ by less than d: the half containing the least id represents the split
Splits(S, d) == IF S = {} THEN {} ELSE { A \in SUBSET S : Min(S) \in A /\ AbsOf(2 * SumOfIds(vals, A) - SumOfIds(vals, S)) < d }
TreeFrame(items, cur, prior, d) ==
   LET t == SumIds(items)
   IN [kind |-> "tree", items |-> items, cur |-> cur, lb |-> RNorm(<<t - (cur - 1) * d, cur>>), ub |-> RNorm(<<t, cur>>),
       dfs |-> << [inc |-> <<>>, rem |-> SortedDesc(items)] >>, prior |-> prior, pending |-> {}, lbest |-> <<>>, ld |-> 0]
SplitFrame(items, prior, d) ==
   [kind |-> "split", items |-> items, cur |-> 4, lb |-> <<0, 1>>, ub |-> <<0, 1>>, dfs |-> <<>>, prior |-> prior,
    pending |-> Splits(SeqRange(items), d), lbest |-> <<>>, ld |-> d]
Without(items, S) == SelectSeq(items, LAMBDA x: x \notin SeqRange(S))

Init == /\ k \in Ks
        /\ \E nn \in 1..MaxN : vals \in [1..nn -> MinV..MaxV]
        /\ best = KKSums /\ bestDiff = Diff(KKSums) /\ calls = 0
        /\ IF Diff(KKSums) = 0 THEN frames = <<>> /\ pc = "done"
           ELSE IF k = 2 THEN frames = <<>> /\ pc = "base2"
           ELSE IF k = 4 THEN frames = << SplitFrame(IdSeq(n), <<>>, Diff(KKSums)) >> /\ pc = "search"
           ELSE frames = << TreeFrame(IdSeq(n), k, <<>>, Diff(KKSums)) >> /\ pc = "search"
\* k = 2: rec returns ckk's two-way optimum, which replaces the KK start unconditionally
Base2 == /\ pc = "base2" /\ best' = TwoWaySums(1..n) /\ bestDiff' = Diff(TwoWaySums(1..n))
         /\ calls' = calls + 1 /\ pc' = "done" /\ UNCHANGED <<vals, k, frames>>

Top == frames[Len(frames)]
Below == SubSeq(frames, 1, Len(frames) - 1)
Pruned(F, Nd) == RLt(F.ub, RInt(SumIds(Nd.inc))) \/ RLt(RInt(SumIds(Nd.inc) + SumIds(Nd.rem)), F.lb)

TreeStep ==
   /\ pc = "search" /\ Len(frames) > 0 /\ Top.kind = "tree" /\ Len(Top.dfs) > 0
   /\ LET F == Top
          Nd == F.dfs[Len(F.dfs)]
          rest == SubSeq(F.dfs, 1, Len(F.dfs) - 1)
          F1 == [F EXCEPT !.dfs = rest]
      IN IF Pruned(F, Nd) THEN frames' = Append(Below, F1) /\ UNCHANGED <<best, bestDiff, calls>>
         ELSE IF Len(Nd.rem) > 0
         THEN /\ frames' = Append(Below, [F EXCEPT !.dfs = rest \o << [inc |-> Nd.inc, rem |-> Tail(Nd.rem)],
                                                                  [inc |-> Append(Nd.inc, Head(Nd.rem)), rem |-> Tail(Nd.rem)] >>])
              /\ UNCHANGED <<best, bestDiff, calls>>
         ELSE LET S == Nd.inc
                  left == Without(F.items, S)
                  prior2 == Append(F.prior, SumIds(S))
              IN IF F.cur = 3
                 THEN LET comb == prior2 \o TwoWaySums(SeqRange(left))
                      IN /\ calls' = calls + 1 /\ frames' = Append(Below, F1)
                         /\ IF Diff(comb) < bestDiff THEN best' = comb /\ bestDiff' = Diff(comb) ELSE UNCHANGED <<best, bestDiff>>
                 ELSE /\ frames' = Append(Append(Below, F1), SplitFrame(left, prior2, bestDiff))
                      /\ UNCHANGED <<best, bestDiff, calls>>
   /\ UNCHANGED <<vals, k, pc>>
SplitStep ==
   /\ pc = "search" /\ Len(frames) > 0 /\ Top.kind = "split" /\ Top.pending # {}
   /\ LET F == Top
          A == CHOOSE X \in F.pending : TRUE
          B == SeqRange(F.items) \ A
          four == TwoWaySums(A) \o TwoWaySums(B)
          d2 == Diff(four \o F.prior)
      IN frames' = Append(Below, IF d2 < F.ld THEN [F EXCEPT !.pending = @ \ {A}, !.lbest = four, !.ld = d2] ELSE [F EXCEPT !.pending = @ \ {A}])
   /\ calls' = calls + 2 /\ UNCHANGED <<vals, k, best, bestDiff, pc>>
\* a split frame is exhausted: hand its best 4-way result (if any) back - to the enclosing tree frame's comparison, or as the final answer
SplitReturn ==
   /\ pc = "search" /\ Len(frames) > 0 /\ Top.kind = "split" /\ Top.pending = {}
   /\ LET F == Top
          comb == F.prior \o F.lbest
      IN IF F.lbest # <<>> /\ Diff(comb) < bestDiff THEN best' = comb /\ bestDiff' = Diff(comb) ELSE UNCHANGED <<best, bestDiff>>
   /\ frames' = Below /\ UNCHANGED <<vals, k, calls, pc>>
TreeReturn == /\ pc = "search" /\ Len(frames) > 0 /\ Top.kind = "tree" /\ Len(Top.dfs) = 0
              /\ frames' = Below /\ UNCHANGED <<vals, k, best, bestDiff, calls, pc>>
Finish == /\ pc = "search" /\ Len(frames) = 0 /\ pc' = "done" /\ UNCHANGED <<vals, k, frames, best, bestDiff, calls>>
Next == Base2 \/ TreeStep \/ SplitStep \/ SplitReturn \/ TreeReturn \/ Finish

----------------------------------------------------------------------------
IncumbentReal == SortAsc(best) \in FinalSums(vals, k) /\ Diff(best) = bestDiff
Monotone == [][pc = "search" => bestDiff' <= bestDiff]_vars
Optimal == pc = "done" => bestDiff = Opt("diff", 0, vals, k)
Emit == pc = "done" => PrintT("@@E " \o ToJson([vals |-> vals, k |-> k, diff |-> bestDiff, calls |-> calls]))
=============================================================================
