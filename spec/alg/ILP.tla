-------------------------------- MODULE ILP --------------------------------
(***************************************************************************)
(* L1: prtpy/partitioning/integer_programming.py with the MIP solver as a  *)
(* NONDETERMINISTIC ORACLE.                                                *)
(*   Build     the MIP the code states: integer counts x[i][b] >= 0, every *)
(*             item i placed copies[i] times, weighted bin sums ascending  *)
(*             in bin index, the caller's additional constraint;           *)
(*             objective = the documented objective of the weighted sums   *)
(*   Solve     the oracle answers with ANY status; with OPTIMAL it returns *)
(*             ANY optimal feasible x (TLC explores all of them)           *)
(*   Raise     status # OPTIMAL  ->  ValueError                            *)
(*   Extract   bins from x; then the bins are sorted by raw sum iff all    *)
(*             weights are equal (SortAlways = TRUE models the code before *)
(*             the repair 4ac22f2: negative control, TLC must find the     *)
(*             broken bin <-> weight correspondence)                       *)
(* Invariants (C17): for EVERY answer of the oracle the result honours the *)
(* copies, the order / correspondence, the constraint and optimality.      *)
(***************************************************************************)
EXTENDS Contract
CONSTANTS MaxN, MaxV, MaxK, Weights, Copies, Statuses, SortAlways
VARIABLES vals, k, w, cp, o, cons, c, status, x, result, pc
vars == <<vals, k, w, cp, o, cons, c, status, x, result, pc>>
n == Len(vals)
Prod(s) == FoldLeft(LAMBDA a, b: a * b, 1, s)
L == Prod(w)
WSums(xx) == [b \in 1..k |-> SumSeq([i \in 1..n |-> xx[i][b] * vals[i]]) * (L \div w[b])]      \* weighted sums scaled by L
ConsOK(ws) == CASE cons = "none" -> TRUE [] cons = "smallest_eq" -> ws[1] = c * L [] cons = "largest_le" -> ws[k] <= c * L [] cons = "smallest_ge" -> ws[1] >= c * L
\* the code passes are_sums_in_ascending_order=True: the objective reads the first / last weighted sum
Obj(ws) == CASE o = "minsum" -> 0 - ws[1] [] o = "maxsum" -> ws[k] [] o = "diff" -> ws[k] - ws[1]
Feasible == { xx \in [1..n -> [1..k -> 0..2]] : /\ \A i \in 1..n : SumSeq(xx[i]) = cp[i]
                                                 /\ NonDec(WSums(xx)) /\ ConsOK(WSums(xx)) }
Optimal == { xx \in Feasible : \A yy \in Feasible : Obj(WSums(xx)) <= Obj(WSums(yy)) }
AllEqualW == \A a, b \in 1..k : w[a] = w[b]

Init == /\ k \in 1..MaxK
        /\ \E nn \in 1..MaxN : vals \in [1..nn -> 1..MaxV] /\ cp \in [1..nn -> Copies]
        /\ w \in [1..k -> Weights]
        /\ o \in {"minsum", "maxsum", "diff"}
        /\ cons \in {"none", "largest_le", "smallest_ge"} /\ c \in {0, 2}
        /\ status = "" /\ x = <<>> /\ result = <<>> /\ pc = "built"
Solve == /\ pc = "built"
         /\ \E st \in Statuses :
               /\ status' = st
               /\ IF st = "OPTIMAL" THEN Optimal # {} /\ x' \in Optimal ELSE x' = <<>>
         /\ pc' = "solved" /\ UNCHANGED <<vals, k, w, cp, o, cons, c, result>>
Raise == /\ pc = "solved" /\ status # "OPTIMAL" /\ pc' = "raised" /\ UNCHANGED <<vals, k, w, cp, o, cons, c, status, x, result>>
Bins(xx) == [b \in 1..k |-> Flatten([i \in 1..n |-> [t \in 1..xx[i][b] |-> i]])]
Extract == /\ pc = "solved" /\ status = "OPTIMAL"
           /\ LET raw == Bins(x)
                  sums == BinSums(vals, raw)
              IN result' = IF AllEqualW \/ SortAlways THEN SortArr(sums, raw).c ELSE raw
           /\ pc' = "returned" /\ UNCHANGED <<vals, k, w, cp, o, cons, c, status, x>>
Next == Solve \/ Raise \/ Extract

Count(i) == Cardinality({ p \in UNION { {b} \X (1..Len(result[b])) : b \in 1..k } : result[p[1]][p[2]] = i })
ResWS == LET s == BinSums(vals, result) IN [b \in 1..k |-> s[b] * (L \div w[b])]
CopiesHonoured == pc = "returned" => \A i \in 1..n : Count(i) = cp[i]
OrderOrCorrespondence == pc = "returned" => IF AllEqualW THEN NonDec(BinSums(vals, result)) ELSE NonDec(ResWS)
ConstraintHolds == pc = "returned" => ConsOK(ResWS)
OptimalAmongConstrained == pc = "returned" => \A yy \in Feasible : Obj(ResWS) <= Obj(WSums(yy))
RefusesUnlessOptimal == (pc = "returned" => status = "OPTIMAL") /\ (pc = "raised" => status # "OPTIMAL")
=============================================================================
