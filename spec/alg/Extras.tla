------------------------------- MODULE Extras -------------------------------
(***************************************************************************)
(* Growth beyond the twenty listed properties: behaviour of prtpy that no  *)
(* listed property mentions, specified the same way (textbook rule /       *)
(* oracle + judge).                                                        *)
(*   SnakeRun      prtpy/partitioning/balanced.py bidirectional_balanced:  *)
(*                 items by non-increasing value dealt in ABCCBA order     *)
(*   L2Admissible  prtpy/packing/bin_completion_utils.py l2_lower_bound /  *)
(*                 l3_lower_bound: a lower bound never exceeds MinBins     *)
(*   CompareSpec   prtpy.compare_algorithms(...) is TRUE iff the two       *)
(*                 extracted outputs are equal                             *)
(***************************************************************************)
EXTENDS Contract, Textbook
\* bin visited by the j-th item (1-based) in ABCCBA dealing over k bins: positions 1..k, k..1, 1..k, ...
SnakeBin(j, k) == LET r == (j - 1) % (2 * k) IN IF r < k THEN r + 1 ELSE 2 * k - r
SnakeRun(vals, k) ==
   LET ord == SortDescIds(vals, IdSeq(Len(vals)))
   IN FoldLeft(LAMBDA st, j: PutIn(st, vals, ord[j], SnakeBin(j, k)), Arr(k), IdSeq(Len(vals)))
SnakeShape(r) == \A a, b \in 1..Len(r.lists) : Len(r.lists[a]) - Len(r.lists[b]) <= 1
=============================================================================
