--------------------------------- MODULE KK ---------------------------------
(***************************************************************************)
(* L1: prtpy/partitioning/karmarkar_karp_sy.py (multiway Karmarkar-Karp    *)
(* differencing), one action per merge.                                    *)
(* The heap holds entries [d, q, a]: d = spread of the bins-array a,       *)
(* q = insertion number (ties: oldest first), a = [s, c] with ascending    *)
(* sums.  Merge: pop the two entries with the largest spread and combine   *)
(* the largest bin of the first with the smallest bin of the second, the   *)
(* second largest with the second smallest, ... (bins1[k-i] += bins2[i]);  *)
(* re-sort (stable) and push back.  After n-1 merges one array is left.    *)
(***************************************************************************)
EXTENDS Contract, Json
CONSTANTS MaxN, MinV, MaxV, MaxK
VARIABLES vals, k, heap, cnt, pc
vars == <<vals, k, heap, cnt, pc>>
n == Len(vals)
Spread(a) == a.s[Len(a.s)] - a.s[1]
TopIdx(h) == CHOOSE i \in 1..Len(h) : \A j \in 1..Len(h) : h[i].d > h[j].d \/ (h[i].d = h[j].d /\ h[i].q <= h[j].q)
DropAt(h, i) == SubSeq(h, 1, i - 1) \o SubSeq(h, i + 1, Len(h))
Init == /\ k \in 1..MaxK
        /\ \E nn \in 1..MaxN : vals \in { s \in [1..nn -> MinV..MaxV] : NonInc(s) }
        /\ heap = [i \in 1..n |-> [d |-> IF k = 1 THEN 0 ELSE vals[i], q |-> i - 1,
                      a |-> [s |-> [b \in 1..k |-> IF b = k THEN vals[i] ELSE 0], c |-> [b \in 1..k |-> IF b = k THEN <<i>> ELSE <<>>]]]]
        /\ cnt = n /\ pc = "merge"
Merge == /\ pc = "merge" /\ Len(heap) > 1
         /\ LET i1 == TopIdx(heap)   e1 == heap[i1]   h1 == DropAt(heap, i1)
                i2 == TopIdx(h1)     e2 == h1[i2]     h2 == DropAt(h1, i2)
                \* for i in range(k): combine_bins(bins1, k-i-1, bins2, i)   (0-based)  ==  bins1[k+1-j] += bins2[j] (1-based)
                ms == [b \in 1..k |-> e1.a.s[b] + e2.a.s[k + 1 - b]]
                mc == [b \in 1..k |-> e1.a.c[b] \o e2.a.c[k + 1 - b]]
                m == SortArr(ms, mc)
            IN /\ heap' = Append(h2, [d |-> m.s[k] - m.s[1], q |-> cnt, a |-> [s |-> m.s, c |-> m.c]])
               /\ cnt' = cnt + 1
         /\ UNCHANGED <<vals, k, pc>>
Finish == /\ pc = "merge" /\ Len(heap) = 1 /\ pc' = "done" /\ UNCHANGED <<vals, k, heap, cnt>>
Next == Merge \/ Finish

Result == heap[1].a
AsRes(a) == [out |-> "ret", lists |-> a.c, sums |-> a.s, exact |-> TRUE]
\* every item is in exactly one array of the heap, sums describe contents, and every array's spread is at most the largest item
Conservation == /\ IsPermutationOfIds(Flatten([j \in 1..Len(heap) |-> Flatten(heap[j].a.c)]), n)
                /\ \A j \in 1..Len(heap) : heap[j].a.s = BinSums(vals, heap[j].a.c) /\ NonDec(heap[j].a.s) /\ heap[j].d = Spread(heap[j].a)
SpreadBounded == \A j \in 1..Len(heap) : Spread(heap[j].a) <= vals[1]
FinalOK == pc = "done" => /\ IsTruePartition(vals, k, AsRes(Result), FALSE) /\ SumsDescribeBins(vals, AsRes(Result))
                          /\ GapWithinLargestItem(vals, Result.s)
                          /\ (k >= 2 => 3 * k * MaxSeq(Result.s) <= (4 * k - 1) * Opt("maxsum", 0, vals, k))
Emit == pc = "done" => PrintT("@@E " \o ToJson([vals |-> vals, k |-> k, best |-> Result.c]))
=============================================================================
