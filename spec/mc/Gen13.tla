------------------------------- MODULE Gen13 -------------------------------
(***************************************************************************)
(* GEN + MC for C13.                                                       *)
(*  Mode "bound": every ascending sum vector (k <= MaxK, entries <= MaxS)  *)
(*     x remaining total R <= MaxR; MC: the transcribed bounds (Bounds.tla)*)
(*     are admissible w.r.t. BestReach for the three objectives.           *)
(*  Mode "tree":  every item sequence (n <= MaxN, values 0..MaxV) x every  *)
(*     window [lb/2, ub/2] in half-integers (including empty and inverted  *)
(*     windows).                                                           *)
(*  Mode "comb":  every pair of bins-arrays with k <= MaxK bins whose bins *)
(*     are drawn from BinChoices.                                          *)
(***************************************************************************)
EXTENDS Bounds, Json
CONSTANTS Mode, MaxK, MaxS, MaxR, MaxN, MaxV
VARIABLES x, sent
BinChoices == << <<>>, <<1>>, <<2>>, <<1, 1>>, <<3>>, <<2, 1>> >>
NC == IF MaxS < Len(BinChoices) THEN MaxS ELSE Len(BinChoices)   \* in "comb" mode MaxS limits the number of bin choices
Init == /\ sent = FALSE
        /\ CASE Mode = "bound" -> \E k \in 1..MaxK : \E s \in { s \in [1..k -> 0..MaxS] : NonDec(s) } : \E R \in 0..MaxR : x = [s |-> s, R |-> R]
             [] Mode = "tree"  -> \E n \in 1..MaxN : \E v \in [1..n -> 0..MaxV] : \E lb \in 0..(2 * SumSeq(v) + 2) : \E ub \in 0..(2 * SumSeq(v) + 2) :
                                     x = [vals |-> v, lb |-> lb, ub |-> ub]       \* window = [lb/2, ub/2]
             [] Mode = "comb"  -> \E k \in 1..MaxK : \E a \in [1..k -> 1..NC] : \E b \in [1..k -> 1..NC] :
                                     x = [c1 |-> [i \in 1..k |-> BinChoices[a[i]]], c2 |-> [i \in 1..k |-> BinChoices[b[i]]]]
Next == /\ ~sent /\ sent' = TRUE /\ PrintT("@@E " \o ToJson(x)) /\ UNCHANGED x
BoundsAdmissible == Mode = "bound" => \A o \in Objectives3 : Admissible(o, x.s, x.R)
=============================================================================
