------------------------------- MODULE ObjGen -------------------------------
(***************************************************************************)
(* GEN for C20: every SEQUENCE (all orders, not only sorted) of n <= MaxN  *)
(* bin sums in 0..MaxS, emitted with the documented value of every integer *)
(* objective for every k in 1..n+2 (the model's own answer travels with    *)
(* the stimulus), and MC of the documented fast path: on sorted vectors    *)
(* FastValue = Value.                                                      *)
(***************************************************************************)
EXTENDS ObjectivesDoc, Json
CONSTANTS MaxN, MaxS
VARIABLES s, sent
Init == /\ \E n \in 1..MaxN : s \in [1..n -> 0..MaxS]
        /\ sent = FALSE
Expected == [o \in Objectives5 |-> [kp \in 1..Len(s) + 2 |-> Value(o, kp, s)]]
Next == /\ ~sent /\ sent' = TRUE
        /\ PrintT("@@E " \o ToJson([s |-> s, exp |-> Expected]))
        /\ UNCHANGED s
FastPathAgrees == NonDec(s) => \A o \in Objectives5 : \A kp \in 1..Len(s) + 2 : FastValue(o, kp, s) = Value(o, kp, s)
\* smaller value <=> better by the documented criterion (spot-check of the sign conventions)
SignsRight == /\ Value("minsum", 0, s) = 0 - MinSeq(s) /\ Value("maxsum", 0, s) = MaxSeq(s)
              /\ Value("diff", 0, s) >= 0
              /\ \A kp \in 1..Len(s) + 2 : Value("ksmallest", kp, s) <= 0 /\ Value("klargest", kp, s) >= MaxSeq(s)
=============================================================================
