------------------------------- MODULE Scope -------------------------------
(***************************************************************************)
(* GEN: the bounded input universes of DESIGN 6, enumerated by TLC and     *)
(* emitted as JSON for the conformance harness.                            *)
(*   P-scope  bags of n <= MaxN values in MinV..MaxV (non-increasing       *)
(*            sequences) x k in 1..MaxK                                    *)
(*   Q-scope  all sequences (arrival order matters) of n <= MaxN values    *)
(*            in MinV..MaxV x capacity C in Cs                             *)
(***************************************************************************)
EXTENDS Prt, Json
CONSTANTS Mode, MaxN, MinV, MaxV, MaxK, Cs
VARIABLES vals, k, C, sent
Init == /\ \E n \in 1..MaxN : vals \in IF Mode = "P" THEN { s \in [1..n -> MinV..MaxV] : NonInc(s) } ELSE [1..n -> MinV..MaxV]
        /\ IF Mode = "P" THEN k \in 1..MaxK /\ C = 0 ELSE k = 0 /\ C \in Cs
        /\ sent = FALSE
Next == /\ ~sent /\ sent' = TRUE
        /\ PrintT("@@E " \o ToJson([vals |-> vals, k |-> k, C |-> C]))
        /\ UNCHANGED <<vals, k, C>>
=============================================================================
