----------------------------- MODULE RefuseGen -----------------------------
(***************************************************************************)
(* GEN for C19: every CBLDM call with EXACTLY ONE invalid argument (and    *)
(* the all-valid control), over a small universe of otherwise valid        *)
(* inputs.  arg is the invalid value, as text; a prefix names the numeric   *)
(* type it is presented in (np64: / np32: numpy floats, npi: numpy integer,*)
(* frac: fractions.Fraction) - the value decides validity, not the type.   *)
(***************************************************************************)
EXTENDS Prt, Json
CONSTANTS MaxN, MaxV
VARIABLES vals, kind, arg, sent
ArgsOf(kd) == CASE kd = "none"  -> {"-"}
                [] kd = "k"     -> {"0", "1", "3", "4", "npi:3", "npi:1"}
                [] kd = "neg"   -> {"first", "last", "all"}          \* which item(s) are made negative
                [] kd = "limit" -> {"0", "-1", "-0.5", "np64:0", "np64:-1.5", "npi:0"}
                [] kd = "bound" -> {"0", "-1", "-5", "1.5", "2.5", "np64:1.5", "np64:2.5", "np32:2.5", "np64:0.5", "npi:0", "npi:-2", "frac:3/2", "frac:5/2"}
\* an EMPTY item collection is part of the universe for the invalid bin count / time limit / cardinality bound (the request is malformed whatever the
\* items are); not for the all-valid control and not for "a negative item" (there is no item to negate)
Init == /\ \E n \in 0..MaxN : vals \in [1..n -> 0..MaxV]
        /\ kind \in {"none", "k", "neg", "limit", "bound"}
        /\ (Len(vals) = 0 => kind \in {"k", "limit", "bound"})
        /\ arg \in ArgsOf(kind)
        /\ sent = FALSE
Next == /\ ~sent /\ sent' = TRUE
        /\ PrintT("@@E " \o ToJson([vals |-> vals, kind |-> kind, arg |-> arg]))
        /\ UNCHANGED <<vals, kind, arg>>
=============================================================================
