----------------------------- MODULE RefuseGen -----------------------------
(***************************************************************************)
(* GEN for C19: every CBLDM call with EXACTLY ONE invalid argument (and    *)
(* the all-valid control), over a small universe of otherwise valid        *)
(* inputs.  arg is the invalid value, as text.                             *)
(***************************************************************************)
EXTENDS Prt, Json
CONSTANTS MaxN, MaxV
VARIABLES vals, kind, arg, sent
ArgsOf(kd) == CASE kd = "none"  -> {"-"}
                [] kd = "k"     -> {"0", "1", "3", "4"}
                [] kd = "neg"   -> {"first", "last", "all"}          \* which item(s) are made negative
                [] kd = "limit" -> {"0", "-1", "-0.5"}
                [] kd = "bound" -> {"0", "-1", "-5", "1.5", "2.5"}
Init == /\ \E n \in 1..MaxN : vals \in [1..n -> 0..MaxV]
        /\ kind \in {"none", "k", "neg", "limit", "bound"}
        /\ arg \in ArgsOf(kind)
        /\ sent = FALSE
Next == /\ ~sent /\ sent' = TRUE
        /\ PrintT("@@E " \o ToJson([vals |-> vals, kind |-> kind, arg |-> arg]))
        /\ UNCHANGED <<vals, kind, arg>>
=============================================================================
