---------------------------- MODULE MCTextbook ----------------------------
(***************************************************************************)
(* MC: the textbook (L1) transcriptions of the simple heuristics satisfy   *)
(* the L0 contract on every input of a bounded universe, and the freedom   *)
(* the rules leave (which of several least-loaded bins; which of several   *)
(* equally full fitting bins) does not change the bag of sums - so the     *)
(* comparison "same multiset of bin sums as the rule" (C14) is well        *)
(* defined.                                                                *)
(***************************************************************************)
EXTENDS Contract, Textbook
CONSTANTS MaxN, MaxV, MaxK, Cs
VARIABLES vals, k, C
Init == /\ \E n \in 1..MaxN : vals \in [1..n -> 0..MaxV]
        /\ k \in 1..MaxK /\ C \in Cs
Next == UNCHANGED <<vals, k, C>>

AsResult(st) == [out |-> "ret", lists |-> st.c, sums |-> st.s, exact |-> TRUE]
GreedyOK == LET m == GreedyRun(vals, k)
            IN IsTruePartition(vals, k, AsResult(m), FALSE) /\ SumsDescribeBins(vals, AsResult(m)) /\ GapWithinLargestItem(vals, m.s)
RoundRobinOK == LET m == RoundRobinRun(vals, k)
                IN IsTruePartition(vals, k, AsResult(m), FALSE) /\ SumsDescribeBins(vals, AsResult(m))
                   /\ RoundRobinShape(AsResult(m)) /\ GapWithinLargestItem(vals, m.s)
Fits == \A i \in 1..Len(vals) : vals[i] <= C
FitOK == Fits => \A alg \in {"ff", "ffd", "bf", "bfd"} :
            LET m == PackRun(alg, vals, C)
            IN FeasiblePacking(vals, C, AsResult(m), FALSE) /\ NoEmptyBin(AsResult(m)) /\ AnyFitInvariant(vals, C, AsResult(m))
Pos == \A i \in 1..Len(vals) : vals[i] >= 1
CoverOK == Pos => \A alg \in {"dec", "tt", "tq"} :
            LET m == CoverRun(alg, vals, C)
            IN ValidCover(vals, C, [out |-> "ret", lists |-> m])

\* every resolution of greedy's ties gives the same bag of sums as the deterministic pick
RECURSIVE GreedyAll(_,_,_)
GreedyAll(S, order, i) ==
   IF i > Len(order) THEN S
   ELSE GreedyAll({ PutIn(st, vals, order[i], b) : st \in S, b \in 1..k } \cap
                  UNION { { PutIn(st, vals, order[i], b) : b \in GreedyChoices(st) } : st \in S }, order, i + 1)
TieFreedomIrrelevant ==
   LET order == SortDescIds(vals, IdSeq(Len(vals)))
       all == GreedyAll({Arr(k)}, order, 1)
   IN \A st \in all : SameBag(st.s, GreedyRun(vals, k).s)
=============================================================================
