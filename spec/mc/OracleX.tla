------------------------------ MODULE OracleX ------------------------------
(* Cross-validation of the oracles against independent formulations (DESIGN 5).
   One initial state per input; each invariant compares two definitions.      *)
EXTENDS Oracles
CONSTANTS MaxN, MaxV, MaxK, Cs
VARIABLES vals, k, C
Init == /\ \E n \in 1..MaxN : vals \in { s \in [1..n -> 0..MaxV] : NonInc(s) }
        /\ k \in 1..MaxK /\ C \in Cs
Next == UNCHANGED <<vals, k, C>>
OptAgrees == \A o \in Objectives5 : \A kp \in 1..k+1 : Opt(o, kp, vals, k) = OptBrute(o, kp, vals, k)
Fits == \A i \in 1..Len(vals) : vals[i] <= C
MinBinsAgrees == (k = 1 /\ Fits) => MinBins(vals, C) = MinBinsAlt(vals, C)
MaxCoverAgrees == k = 1 => MaxCover(vals, C) = MaxCoverAlt(vals, C)
=============================================================================
