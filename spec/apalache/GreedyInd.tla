----------------------------- MODULE GreedyInd -----------------------------
(***************************************************************************)
(* Apalache (symbolic) strengthening of C08's gap clause for UNBOUNDED     *)
(* item values: placing items of value <= vmax, each into a least-loaded   *)
(* bin, keeps  max - min <= vmax.  IndInv is inductive:                    *)
(*     Init => IndInv        and        IndInv /\ Next => IndInv'          *)
(* checked for a fixed number of bins K (instantiated 2..5 by the harness).*)
(***************************************************************************)
EXTENDS Integers
CONSTANT
  \* @type: Int;
  K
VARIABLES
  \* @type: Int -> Int;
  sums,
  \* @type: Int;
  vmax
Bins == 1..K
IndInv == /\ vmax >= 0
          /\ \A b \in Bins : sums[b] >= 0
          /\ \A b, c \in Bins : sums[b] - sums[c] <= vmax
IndInit == sums \in [Bins -> Int] /\ vmax \in Int /\ IndInv
Init == sums = [b \in Bins |-> 0] /\ vmax \in Nat
Place(b, v) == /\ \A c \in Bins : sums[b] <= sums[c]
               /\ sums' = [sums EXCEPT ![b] = @ + v]
               /\ UNCHANGED vmax
Next == \E b \in Bins : \E v \in Int : v >= 0 /\ v <= vmax /\ Place(b, v)
=============================================================================
