----------------------------- MODULE AnyFitInd -----------------------------
(***************************************************************************)
(* Apalache strengthening of C09's any-fit invariant for unbounded values  *)
(* and capacities: first-fit (Rule = 1) and best-fit (Rule = 2) over at    *)
(* most K bins keep, at every step,                                        *)
(*     every open bin <= C   and   for a < b open: sums[a] + first[b] > C  *)
(* where first[b] is the item that opened bin b.                           *)
(***************************************************************************)
EXTENDS Integers
CONSTANTS
  \* @type: Int;
  K,
  \* @type: Int;
  Rule
VARIABLES
  \* @type: Int -> Int;
  sums,
  \* @type: Int -> Int;
  first,
  \* @type: Int;
  nb,
  \* @type: Int;
  C
Bins == 1..K
IndInv == /\ C >= 0 /\ nb >= 1 /\ nb <= K
          /\ \A b \in Bins : sums[b] >= 0 /\ first[b] >= 0 /\ first[b] <= sums[b]
          /\ \A b \in Bins : b <= nb => sums[b] <= C
          /\ \A a, b \in Bins : (a < b /\ b <= nb) => sums[a] + first[b] > C
IndInit == sums \in [Bins -> Int] /\ first \in [Bins -> Int] /\ nb \in Int /\ C \in Int /\ IndInv
\* the packing starts with one empty bin (first_fit.online: bins = new_bins(1))
Init == sums = [b \in Bins |-> 0] /\ first = [b \in Bins |-> 0] /\ nb = 1 /\ C \in Nat
Fits(b, v) == b <= nb /\ sums[b] + v <= C
Chosen(b, v) == /\ Fits(b, v)
                /\ IF Rule = 1 THEN \A a \in Bins : a < b => ~Fits(a, v)
                   ELSE \A a \in Bins : Fits(a, v) => (sums[a] < sums[b] \/ (sums[a] = sums[b] /\ a >= b))
Put(v) == \E b \in Bins : /\ Chosen(b, v)
                          /\ sums' = [sums EXCEPT ![b] = @ + v]
                          /\ first' = IF sums[b] = 0 /\ first[b] = 0 /\ b = 1 /\ nb = 1 THEN [first EXCEPT ![b] = v] ELSE first
                          /\ UNCHANGED <<nb, C>>
Open(v) == /\ \A b \in Bins : ~Fits(b, v)
           /\ nb < K
           /\ sums' = [sums EXCEPT ![nb + 1] = v] /\ first' = [first EXCEPT ![nb + 1] = v]
           /\ nb' = nb + 1 /\ UNCHANGED C
Next == \E v \in Int : v >= 0 /\ v <= C /\ (Put(v) \/ Open(v))
=============================================================================
