--------------------------- MODULE RoundRobinInd ---------------------------
(***************************************************************************)
(* Apalache strengthening of C08's round-robin clauses for unbounded       *)
(* values and any number of items: dealing items of NON-INCREASING value   *)
(* cyclically keeps the sums non-increasing in bin index and the bin       *)
(* cardinalities within one of each other.  pos = the bin that receives    *)
(* the next item, last = the value dealt most recently (the next one is    *)
(* not larger).                                                            *)
(***************************************************************************)
EXTENDS Integers
CONSTANT
  \* @type: Int;
  K
VARIABLES
  \* @type: Int -> Int;
  sums,
  \* @type: Int -> Int;
  cnt,
  \* @type: Int;
  pos,
  \* @type: Int;
  last
Bins == 1..K
Shape == /\ \A b, c \in Bins : b < c => sums[b] >= sums[c]
         /\ \A b, c \in Bins : cnt[b] - cnt[c] <= 1 /\ cnt[c] - cnt[b] <= 1
IndInv == /\ pos \in Bins /\ last >= 0
          /\ \A b \in Bins : sums[b] >= 0 /\ cnt[b] >= 0
          /\ \A b, c \in Bins : (b < c /\ ((b < pos /\ c < pos) \/ (b >= pos /\ c >= pos))) => sums[b] >= sums[c] /\ cnt[b] = cnt[c]
          /\ \A b, c \in Bins : (b < pos /\ c >= pos) => sums[b] >= sums[c] + last /\ cnt[b] = cnt[c] + 1
IndInit == sums \in [Bins -> Int] /\ cnt \in [Bins -> Int] /\ pos \in Int /\ last \in Int /\ IndInv
Init == sums = [b \in Bins |-> 0] /\ cnt = [b \in Bins |-> 0] /\ pos = 1 /\ last \in Nat
Deal(v) == /\ v >= 0 /\ v <= last
           /\ sums' = [sums EXCEPT ![pos] = @ + v] /\ cnt' = [cnt EXCEPT ![pos] = @ + 1]
           /\ pos' = IF pos = K THEN 1 ELSE pos + 1
           /\ last' = v
Next == \E v \in Int : Deal(v)
ShapeFollows == IndInv => Shape
=============================================================================
