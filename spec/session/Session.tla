------------------------------ MODULE Session ------------------------------
(***************************************************************************)
(* L2: prtpy as a STATELESS service.  One interpreter, a finite menu of    *)
(* calls 1..MenuSize (algorithm x input x presentation x output type x     *)
(* options, including calls that must fail).  The only state of the        *)
(* specification is the history; a call's answer is a function of the call *)
(* alone:                                                                  *)
(*      Invoke(c):  hist' = Append(hist, c);  answer = Fresh[c]            *)
(* where Fresh[c] is the answer of c in an interpreter that has made no    *)
(* other call.  C15 says the implementation refines this: whatever the     *)
(* history, every answer equals Fresh[c] and the arguments are unchanged.  *)
(*                                                                         *)
(* GEN: all histories of length <= MaxLen when Exhaustive (every ordered   *)
(* pair of calls: "does a leave something behind that b sees?"), or        *)
(* simulated walks for long histories.                                     *)
(***************************************************************************)
EXTENDS Naturals, Sequences, TLC, Json
CONSTANTS MenuSize, MaxLen
VARIABLES hist
Init == hist = <<>>
Invoke(c) == Len(hist) < MaxLen /\ hist' = Append(hist, c)
Next == \E c \in 1..MenuSize : Invoke(c)
Emit == (Len(hist) = MaxLen) => PrintT("@@E " \o ToJson([calls |-> hist]))
=============================================================================
