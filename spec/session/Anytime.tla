------------------------------ MODULE Anytime ------------------------------
(***************************************************************************)
(* L2: an abstract anytime search (complete greedy, CBLDM, the CKK         *)
(* generator).  The incumbent `inc` is either None (<<>>) or a complete    *)
(* valid partition of the input; it is replaced only by a strictly better  *)
(* complete valid partition; a time limit may cut the search at any moment *)
(* and then the incumbent is what is returned.                             *)
(*                                                                         *)
(*   Improve(p)   enabled iff p is a true partition strictly better than   *)
(*                the incumbent                                            *)
(*   Cut          the limit fires: result = inc                            *)
(*                                                                         *)
(* Safety consequences (checked as invariants / action properties here and *)
(* evaluated step by step on recorded cut histories by JAnytime):          *)
(*   ResultValid    every result is None or a true partition               *)
(*   Monotone       the value of the result never gets worse               *)
(*   NeverBackToNone                                                       *)
(***************************************************************************)
EXTENDS Contract
CONSTANT Which                   \* which of the inputs below is model-checked (cfg files cannot hold tuples)
Cases == << [vals |-> <<2, 1, 1>>, k |-> 2, o |-> "diff"], [vals |-> <<3, 2, 2, 1>>, k |-> 2, o |-> "maxsum"],
            [vals |-> <<2, 2, 1>>, k |-> 3, o |-> "minsum"], [vals |-> <<3, 0, 2, 2>>, k |-> 3, o |-> "diff"] >>
Vals == Cases[Which].vals        \* one input: item values, number of bins, objective
K    == Cases[Which].k
Obj  == Cases[Which].o
VARIABLES inc, cut
avars == <<inc, cut>>
None == <<>>
AsRes(p) == [out |-> "ret", lists |-> p]
Parts == { p \in [1..K -> SUBSET (1..Len(Vals))] : (\A i \in 1..Len(Vals) : \E b \in 1..K : i \in p[b])
                                                   /\ \A a, b \in 1..K : a # b => p[a] \cap p[b] = {} }
AsLists(p) == [b \in 1..K |-> SetToSortSeq(p[b], <)]
ValOf(l) == Value(Obj, 0, BinSums(Vals, l))
AInit == inc = None /\ cut = FALSE
Improve(p) == /\ ~cut /\ (IF inc = None THEN TRUE ELSE ValOf(AsLists(p)) < ValOf(inc))
              /\ inc' = AsLists(p) /\ UNCHANGED cut
Cut == ~cut /\ cut' = TRUE /\ UNCHANGED inc
ANext == (\E p \in Parts : Improve(p)) \/ Cut
ResultValid == inc = None \/ IsTruePartition(Vals, K, AsRes(inc), FALSE)
Monotone == [][inc # None => (inc' # None /\ ValOf(inc') <= ValOf(inc))]_avars
\* an uncut search that can no longer improve holds an optimum
Exhausted == ~cut /\ inc # None /\ ~(\E p \in Parts : ValOf(AsLists(p)) < ValOf(inc))
OptimalWhenExhausted == Exhausted => ValOf(inc) = Opt(Obj, 0, Vals, K)
=============================================================================
