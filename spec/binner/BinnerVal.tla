----------------------------- MODULE BinnerVal -----------------------------
(***************************************************************************)
(* L1/L2: the bins-manager (prtpy/binners.py) with VALUE semantics - what  *)
(* the documentation of each operation promises.                           *)
(*                                                                         *)
(* State: a pool of slots; a live slot holds a bins-array, i.e. a sequence *)
(* of bins [s |-> sum, c |-> sequence of items].  Items are numbers with   *)
(* value ItemVal(it).  keep = TRUE models the contents-keeping manager,    *)
(* keep = FALSE the sums-only manager ("the contents manager minus the     *)
(* lists": c stays empty).  The hand-over discipline of C16 is built in:   *)
(* the array given to add-empty / remove / concatenate is thereafter used  *)
(* only through the returned array, so those operations rebind the slot    *)
(* (and concatenate consumes its second argument).                         *)
(*                                                                         *)
(* Every operation is a guard G_x and a result R_x (the new value of v),   *)
(* so that the same text drives the model checker (actions below) and the  *)
(* trace judge (JBinner.tla).  Sort is nondeterministic up to any          *)
(* permutation that makes the sums non-decreasing (the property does not   *)
(* demand stability).                                                      *)
(***************************************************************************)
EXTENDS Prt
CONSTANTS Slots, Items, MaxBins
\* item 100 is zero-valued; item 101 is worth 2^24 + 1 (a sum kept in single precision cannot hold it); the others are worth their id
ItemVal(it) == IF it = 101 THEN 16777217 ELSE IF it >= 100 THEN 0 ELSE it
VARIABLES v, live, keep
bvars == <<v, live, keep>>

EmptyBin == [s |-> 0, c |-> <<>>]
NBv(vv, a) == Len(vv[a])
NB(a) == Len(v[a])
BInit == v = [a \in Slots |-> <<>>] /\ live = {} /\ keep \in BOOLEAN

G_new(lv, vv, a, n)  == a \notin lv /\ n \in 0..MaxBins
R_new(vv, a, n)      == [vv EXCEPT ![a] = [i \in 1..n |-> EmptyBin]]
G_add(lv, vv, a, i)  == a \in lv /\ i \in 1..NBv(vv, a)
R_add(vv, kp, a, it, i) == [vv EXCEPT ![a][i] = [s |-> @.s + ItemVal(it), c |-> IF kp THEN Append(@.c, it) ELSE @.c]]
G_copy(lv, a, b)     == a \in lv /\ b \notin lv
R_copy(vv, a, b)     == [vv EXCEPT ![b] = vv[a]]
G_sort(lv, a)        == a \in lv
Perms(S) == { f \in [S -> S] : \A x, y \in S : f[x] = f[y] => x = y }
IsSortOf(new, old) == /\ Len(new) = Len(old)
                      /\ \E p \in Perms(1..Len(old)) : new = [i \in 1..Len(old) |-> old[p[i]]]
                      /\ NonDec([i \in 1..Len(new) |-> new[i].s])
G_addempty(lv, vv, a, n) == a \in lv /\ n >= 0 /\ NBv(vv, a) + n <= MaxBins
R_addempty(vv, a, n) == [vv EXCEPT ![a] = @ \o [i \in 1..n |-> EmptyBin]]
G_remove(lv, vv, a, n) == a \in lv /\ n \in 0..NBv(vv, a)
R_remove(vv, a, n)   == [vv EXCEPT ![a] = SubSeq(@, 1, Len(@) - n)]
G_concat(lv, vv, a, b) == a \in lv /\ b \in lv /\ a # b /\ NBv(vv, a) + NBv(vv, b) <= MaxBins
R_concat(vv, a, b)   == [vv EXCEPT ![a] = vv[a] \o vv[b], ![b] = <<>>]
G_combine(lv, vv, a, i, b, j) == a \in lv /\ b \in lv /\ i \in 1..NBv(vv, a) /\ j \in 1..NBv(vv, b)
R_combine(vv, a, i, b, j) == [vv EXCEPT ![a][i] = [s |-> @.s + vv[b][j].s, c |-> @.c \o vv[b][j].c]]

New(a, n)      == G_new(live, v, a, n) /\ v' = R_new(v, a, n) /\ live' = live \cup {a}
Add(a, it, i)  == G_add(live, v, a, i) /\ v' = R_add(v, keep, a, it, i) /\ UNCHANGED live
\* an addition that the manager must reject (the value function raises for the item): no effect at all
AddBad(a, i)   == G_add(live, v, a, i) /\ UNCHANGED <<v, live>>
Copy(a, b)     == G_copy(live, a, b) /\ v' = R_copy(v, a, b) /\ live' = live \cup {b}
Sort(a)        == /\ G_sort(live, a)
                  /\ \E new \in { [i \in 1..NB(a) |-> v[a][p[i]]] : p \in Perms(1..NB(a)) } :
                        NonDec([i \in 1..Len(new) |-> new[i].s]) /\ v' = [v EXCEPT ![a] = new]
                  /\ UNCHANGED live
AddEmpty(a, n) == G_addempty(live, v, a, n) /\ v' = R_addempty(v, a, n) /\ UNCHANGED live
RemoveLast(a, n) == G_remove(live, v, a, n) /\ v' = R_remove(v, a, n) /\ UNCHANGED live
Concat(a, b)   == G_concat(live, v, a, b) /\ v' = R_concat(v, a, b) /\ live' = live \ {b}
Combine(a, i, b, j) == G_combine(live, v, a, i, b, j) /\ v' = R_combine(v, a, i, b, j) /\ UNCHANGED live

BOp == \/ \E a \in Slots, n \in 0..2 : New(a, n)
       \/ \E a \in Slots, it \in Items, i \in 1..MaxBins : Add(a, it, i)
       \/ \E a, b \in Slots : Copy(a, b)
       \/ \E a \in Slots : Sort(a)
       \/ \E a \in Slots, n \in 0..2 : AddEmpty(a, n)
       \/ \E a \in Slots, n \in 0..2 : RemoveLast(a, n)
       \/ \E a, b \in Slots : Concat(a, b)
       \/ \E a, b \in Slots, i, j \in 1..MaxBins : Combine(a, i, b, j)
BNext == BOp /\ UNCHANGED keep

\* C16 invariants of the value model
BinConsistent(bn, kp) == ~kp \/ bn.s = SumSeq([t \in 1..Len(bn.c) |-> ItemVal(bn.c[t])])
SumsConsistentV == \A a \in live : \A i \in 1..NB(a) : BinConsistent(v[a][i], keep)
DeadSlotsEmpty == \A a \in Slots \ live : v[a] = <<>>
=============================================================================
