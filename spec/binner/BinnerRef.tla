----------------------------- MODULE BinnerRef -----------------------------
(***************************************************************************)
(* L1: REFERENCE semantics of the actual representation used by            *)
(* BinnerKeepingContents - numpy buffers (remove_bins returns a VIEW of    *)
(* the same buffer), python inner lists (concatenate / add_empty_bins /    *)
(* remove_bins build a new OUTER list that SHARES the inner lists) - run   *)
(* in lock-step with the value model BinnerVal.                            *)
(*                                                                         *)
(*   h[slot] = [buf, len, outer]  the handle a client holds                *)
(*   buf[id] = Seq(Nat)           numpy data                               *)
(*   lst[id] = Seq(Items)         python inner lists                       *)
(*                                                                         *)
(* Discipline = TRUE : the hand-over rule of C16 (result rebinds the slot; *)
(*   old handle dead).  TLC checks Refines and SumsConsistent.             *)
(* Discipline = FALSE: results go to a fresh slot and the argument stays   *)
(*   live - TLC must then find the aliasing counterexample (negative       *)
(*   control; this is why the property carries the side condition).        *)
(***************************************************************************)
EXTENDS BinnerVal
CONSTANTS MaxOps, Discipline
VARIABLES h, buf, lst, nops
vars == <<v, live, keep, h, buf, lst, nops>>
NoH == [buf |-> 0, len |-> 0, outer |-> <<>>]
RInit == BInit /\ keep = TRUE /\ h = [a \in Slots |-> NoH] /\ buf = <<>> /\ lst = <<>> /\ nops = 0
HB(a) == h[a].len
Tick == nops < MaxOps /\ nops' = nops + 1 /\ UNCHANGED keep

RNew(a, n) == /\ Tick /\ New(a, n)
              /\ buf' = Append(buf, [i \in 1..n |-> 0])
              /\ lst' = lst \o [i \in 1..n |-> <<>>]
              /\ h' = [h EXCEPT ![a] = [buf |-> Len(buf) + 1, len |-> n, outer |-> [i \in 1..n |-> Len(lst) + i]]]
RAdd(a, it, i) == /\ Tick /\ Add(a, it, i)
                  /\ buf' = [buf EXCEPT ![h[a].buf][i] = @ + ItemVal(it)]
                  /\ lst' = [lst EXCEPT ![h[a].outer[i]] = Append(@, it)]
                  /\ UNCHANGED h
RCopy(a, b) == /\ Tick /\ Copy(a, b)
               /\ buf' = Append(buf, SubSeq(buf[h[a].buf], 1, HB(a)))
               /\ lst' = lst \o [i \in 1..HB(a) |-> lst[h[a].outer[i]]]
               /\ h' = [h EXCEPT ![b] = [buf |-> Len(buf) + 1, len |-> HB(a), outer |-> [i \in 1..HB(a) |-> Len(lst) + i]]]
\* python's sorted(range(n), key=sums): stable
RSort(a) == /\ Tick /\ a \in live
            /\ LET s == buf[h[a].buf]
                   idx == SortSeq([i \in 1..HB(a) |-> i], LAMBDA x, y: s[x] < s[y] \/ (s[x] = s[y] /\ x < y))
               IN /\ buf' = [buf EXCEPT ![h[a].buf] = [i \in 1..Len(s) |-> IF i <= HB(a) THEN s[idx[i]] ELSE s[i]]]
                  /\ h' = [h EXCEPT ![a].outer = [i \in 1..HB(a) |-> h[a].outer[idx[i]]]]
                  /\ v' = [v EXCEPT ![a] = [i \in 1..HB(a) |-> v[a][idx[i]]]]
            /\ UNCHANGED <<lst, live>>
\* np.append -> fresh buffer; lists1 + lists2 -> new outer list sharing the inner lists
RConcat(a, b, r) ==
   /\ Tick /\ a \in live /\ b \in live /\ a # b /\ HB(a) + HB(b) <= MaxBins
   /\ IF Discipline THEN r = a ELSE r \notin live
   /\ buf' = Append(buf, SubSeq(buf[h[a].buf], 1, HB(a)) \o SubSeq(buf[h[b].buf], 1, HB(b)))
   /\ LET nh == [buf |-> Len(buf) + 1, len |-> HB(a) + HB(b), outer |-> h[a].outer \o h[b].outer]
      IN IF Discipline
         THEN h' = [h EXCEPT ![a] = nh, ![b] = NoH] /\ v' = [v EXCEPT ![a] = v[a] \o v[b], ![b] = <<>>] /\ live' = live \ {b}
         ELSE h' = [h EXCEPT ![r] = nh] /\ v' = [v EXCEPT ![r] = v[a] \o v[b]] /\ live' = live \cup {r}
   /\ UNCHANGED lst
RAddEmpty(a, n, r) ==
   /\ Tick /\ a \in live /\ HB(a) + n <= MaxBins
   /\ IF Discipline THEN r = a ELSE r \notin live
   /\ buf' = Append(buf, SubSeq(buf[h[a].buf], 1, HB(a)) \o [i \in 1..n |-> 0])
   /\ lst' = lst \o [i \in 1..n |-> <<>>]
   /\ h' = [h EXCEPT ![r] = [buf |-> Len(buf) + 1, len |-> HB(a) + n, outer |-> h[a].outer \o [i \in 1..n |-> Len(lst) + i]]]
   /\ v' = [v EXCEPT ![r] = v[a] \o [i \in 1..n |-> EmptyBin]] /\ live' = live \cup {r}
\* slicing: a numpy VIEW of the same buffer, a new outer list with the same inner lists
RRemove(a, n, r) ==
   /\ Tick /\ a \in live /\ n \in 0..HB(a)
   /\ IF Discipline THEN r = a ELSE r \notin live
   /\ h' = [h EXCEPT ![r] = [buf |-> h[a].buf, len |-> HB(a) - n, outer |-> SubSeq(h[a].outer, 1, HB(a) - n)]]
   /\ v' = [v EXCEPT ![r] = SubSeq(v[a], 1, HB(a) - n)] /\ live' = live \cup {r}
   /\ UNCHANGED <<buf, lst>>
RCombine(a, i, b, j) == /\ Tick /\ Combine(a, i, b, j)
                        /\ buf' = [buf EXCEPT ![h[a].buf][i] = @ + buf[h[b].buf][j]]
                        /\ lst' = [lst EXCEPT ![h[a].outer[i]] = @ \o lst[h[b].outer[j]]]
                        /\ UNCHANGED h
ROp == \/ \E a \in Slots, n \in 0..2 : RNew(a, n)
       \/ \E a \in Slots, it \in Items, i \in 1..MaxBins : RAdd(a, it, i)
       \/ \E a, b \in Slots : RCopy(a, b)
       \/ \E a \in Slots : RSort(a)
       \/ \E a, b, r \in Slots : RConcat(a, b, r)
       \/ \E a, r \in Slots, n \in 0..2 : RAddEmpty(a, n, r)
       \/ \E a, r \in Slots, n \in 0..2 : RRemove(a, n, r)
       \/ \E a, b \in Slots, i, j \in 1..MaxBins : RCombine(a, i, b, j)
RNext == ROp

\* what a client observes through handle a
Deref(a) == [i \in 1..HB(a) |-> [s |-> buf[h[a].buf][i], c |-> lst[h[a].outer[i]]]]
Refines == \A a \in live : Deref(a) = v[a]
SumsConsistent == \A a \in live : \A i \in 1..HB(a) : BinConsistent(Deref(a)[i], TRUE)
\* an operation on some slots changes what is seen through no OTHER live handle (copies independent in both directions):
\* follows from Refines (v changes only at the slots the operation names), stated as an action property for the record
Frame == [][\A a \in live \cap live' : (v'[a] = v[a]) => (Deref(a)' = Deref(a))]_vars
=============================================================================
