----------------------------- MODULE BinnerGen -----------------------------
(***************************************************************************)
(* GEN for C16: every history of bins-manager operations (BinnerVal, with  *)
(* the hand-over discipline) up to MaxOps operations, emitted as JSON when *)
(* complete; shorter histories are covered as prefixes, because the judge  *)
(* checks the state after every operation.  Sort is resolved with the      *)
(* stable order here (one emission per history); the judge accepts any     *)
(* valid order.  Used exhaustively (BFS) and with -simulate for deep walks.*)
(***************************************************************************)
EXTENDS BinnerVal, Json
CONSTANT MaxOps
VARIABLES hist
gvars == <<v, live, keep, hist>>
GInit == BInit /\ keep = TRUE /\ hist = <<>>
Rec(op, a, b, i, j, n, it) == [op |-> op, a |-> a, b |-> b, i |-> i, j |-> j, n |-> n, it |-> it]
StableSort(a) == /\ a \in live
                 /\ LET idx == StableAscIdx([i \in 1..NB(a) |-> v[a][i].s])
                    IN v' = [v EXCEPT ![a] = [i \in 1..NB(a) |-> v[a][idx[i]]]]
                 /\ UNCHANGED live
GNext == /\ Len(hist) < MaxOps /\ UNCHANGED keep
         /\ \/ \E a \in Slots, n \in 0..2 : New(a, n) /\ hist' = Append(hist, Rec("new", a, 0, 0, 0, n, 0))
            \/ \E a \in Slots, it \in Items, i \in 1..MaxBins : Add(a, it, i) /\ hist' = Append(hist, Rec("add", a, 0, i, 0, 0, it))
            \/ \E a \in Slots, i \in 1..MaxBins : AddBad(a, i) /\ hist' = Append(hist, Rec("addbad", a, 0, i, 0, 0, 0))
            \/ \E a, b \in Slots : Copy(a, b) /\ hist' = Append(hist, Rec("copy", a, b, 0, 0, 0, 0))
            \/ \E a \in Slots : NB(a) >= 2 /\ StableSort(a) /\ hist' = Append(hist, Rec("sort", a, 0, 0, 0, 0, 0))
            \/ \E a \in Slots, n \in 0..2 : AddEmpty(a, n) /\ hist' = Append(hist, Rec("addempty", a, 0, 0, 0, n, 0))
            \/ \E a \in Slots, n \in 0..2 : RemoveLast(a, n) /\ hist' = Append(hist, Rec("remove", a, 0, 0, 0, n, 0))
            \/ \E a, b \in Slots : Concat(a, b) /\ hist' = Append(hist, Rec("concat", a, b, 0, 0, 0, 0))
            \/ \E a, b \in Slots, i, j \in 1..MaxBins : Combine(a, i, b, j) /\ hist' = Append(hist, Rec("combine", a, b, i, j, 0, 0))
EmitAtEnd == (Len(hist) = MaxOps) => PrintT("@@E " \o ToJson([ops |-> hist]))
=============================================================================
