----------------------------- MODULE BinnerGen -----------------------------
(***************************************************************************)
(* GEN for C16: every history of bins-manager operations (BinnerVal, with  *)
(* the hand-over discipline) up to MaxOps operations, emitted as JSON when *)
(* complete; shorter histories are covered as prefixes, because the judge  *)
(* checks the state after every operation.  Sort is resolved with the      *)
(* stable order here (one emission per history); the judge accepts any     *)
(* valid order.  Used exhaustively (BFS) and with -simulate for deep walks.*)
(* The universe is a parameter: NewSizes (sizes of freshly created arrays), *)
(* Ns (how many bins add-empty / remove add or drop) and Ops (the enabled   *)
(* operations) - so that narrow universes can be enumerated DEEPER (e.g. a  *)
(* three-bin array that is sorted, shrunk, disturbed and sorted again).     *)
(***************************************************************************)
EXTENDS BinnerVal, Json
CONSTANTS MaxOps, NewSizes, Ns, Ops
VARIABLES hist
gvars == <<v, live, keep, hist>>
GInit == BInit /\ keep = TRUE /\ hist = <<>>
Rec(op, a, b, i, j, n, it) == [op |-> op, a |-> a, b |-> b, i |-> i, j |-> j, n |-> n, it |-> it]
StableSort(a) == /\ a \in live
                 /\ LET idx == StableAscIdx([i \in 1..NB(a) |-> v[a][i].s])
                    IN v' = [v EXCEPT ![a] = [i \in 1..NB(a) |-> v[a][idx[i]]]]
                 /\ UNCHANGED live
GNext == /\ Len(hist) < MaxOps /\ UNCHANGED keep
         /\ \/ "new" \in Ops /\ \E a \in Slots, n \in NewSizes : New(a, n) /\ hist' = Append(hist, Rec("new", a, 0, 0, 0, n, 0))
            \/ "add" \in Ops /\ \E a \in Slots, it \in Items, i \in 1..MaxBins : Add(a, it, i) /\ hist' = Append(hist, Rec("add", a, 0, i, 0, 0, it))
            \/ "addbad" \in Ops /\ \E a \in Slots, i \in 1..MaxBins : AddBad(a, i) /\ hist' = Append(hist, Rec("addbad", a, 0, i, 0, 0, 0))
            \/ "copy" \in Ops /\ \E a, b \in Slots : Copy(a, b) /\ hist' = Append(hist, Rec("copy", a, b, 0, 0, 0, 0))
            \/ "sort" \in Ops /\ \E a \in Slots : NB(a) >= 2 /\ StableSort(a) /\ hist' = Append(hist, Rec("sort", a, 0, 0, 0, 0, 0))
            \/ "addempty" \in Ops /\ \E a \in Slots, n \in Ns : AddEmpty(a, n) /\ hist' = Append(hist, Rec("addempty", a, 0, 0, 0, n, 0))
            \/ "remove" \in Ops /\ \E a \in Slots, n \in Ns : RemoveLast(a, n) /\ hist' = Append(hist, Rec("remove", a, 0, 0, 0, n, 0))
            \/ "concat" \in Ops /\ \E a, b \in Slots : Concat(a, b) /\ hist' = Append(hist, Rec("concat", a, b, 0, 0, 0, 0))
            \/ "combine" \in Ops /\ \E a, b \in Slots, i, j \in 1..MaxBins : Combine(a, i, b, j) /\ hist' = Append(hist, Rec("combine", a, b, i, j, 0, 0))
EmitAtEnd == (Len(hist) = MaxOps) => PrintT("@@E " \o ToJson([ops |-> hist]))
=============================================================================
