------------------------------- MODULE JPack -------------------------------
(***************************************************************************)
(* JUDGE for recorded executions of prtpy.pack (code -> spec): bin         *)
(* packing (ff, ffd, bf, bfd, bc = bin completion) and bin covering (dec,  *)
(* tt = two-thirds, tq = three-quarters).  A trace is the history of calls *)
(* made on ONE input (vals, C); values and C are integers (numerators over *)
(* a common power-of-two denominator when the input was dyadic).           *)
(* Each event r carries the full result (lists of ids, sums) and, when     *)
(* requested, the answers of the same call with output types BinCount (bc) *)
(* and Sums (so).                                                          *)
(***************************************************************************)
EXTENDS Contract, Textbook, OutputTypes, Json, IOUtils
CONSTANT Active

Traces == JsonDeserialize(IOEnv.TRACE_FILE)
VARIABLES tid, phase

Packers == {"ff", "ffd", "bf", "bfd", "bc"}
Covers  == {"dec", "tt", "tq"}
Oversize(vals, C) == \E i \in 1..Len(vals) : vals[i] > C

\* ---- C03: feasible packing of exactly the input items, no empty bin, count matches
C03Fails(vals, C, r) ==
   IF r.alg \notin Packers \/ Oversize(vals, C) THEN <<>>
   ELSE IF r.out # "ret" THEN <<"C03." \o r.out>>
   ELSE IF ~IdsValid(vals, r) THEN <<"C03.unknown_item">>
   ELSE IF ~IsInjectionIntoIds(Flatten(r.lists), Len(vals)) THEN <<"C03.item_duplicated">>
   ELSE IF \E i \in MissingIds(vals, r) : ~(r.alg = "bc" /\ vals[i] = 0) THEN <<"C03.item_lost">>
   ELSE IF \E j \in 1..Len(r.lists) : BinSum(vals, r.lists[j]) > C THEN <<"C03.bin_overfull">>
   ELSE IF ~NoEmptyBin(r) THEN <<"C03.empty_bin">>
   ELSE IF r.bcout # "skip" /\ (r.bcout # "ret" \/ r.bc # Len(r.lists)) THEN <<"C03.bincount_differs_from_bins">>
   ELSE IF r.soout # "skip" /\ (r.soout # "ret" \/ \E j \in 1..Len(r.so) : r.so[j] > C) THEN <<"C03.sums_output_overfull">>
   ELSE <<>>

\* ---- C04: bin completion uses the minimum number of bins (values >= 1)
C04Fails(vals, C, r, mb) ==
   IF r.alg # "bc" \/ Oversize(vals, C) \/ \E i \in 1..Len(vals) : vals[i] < 1 THEN <<>>
   ELSE IF r.out # "ret" THEN <<"C04." \o r.out>>
   ELSE (IF Len(r.lists) # mb THEN <<"C04.partition_output_not_minimum">> ELSE <<>>)
     \o (IF r.bcout # "skip" /\ (r.bcout # "ret" \/ r.bc # mb) THEN <<"C04.bincount_output_not_minimum">> ELSE <<>>)
     \o (IF r.soout # "skip" /\ (r.soout # "ret" \/ Len(r.so) # mb) THEN <<"C04.sums_output_not_minimum">> ELSE <<>>)
     \o (IF Len(r.lists) > Len(PackRun("ffd", vals, C).s) \/ Len(r.lists) > Len(PackRun("bfd", vals, C).s) THEN <<"C04.more_bins_than_ffd_or_bfd">> ELSE <<>>)

\* ---- C05: valid cover wasting less than one bin
C05Fails(vals, C, r) ==
   IF r.alg \notin Covers THEN <<>>
   ELSE IF r.out # "ret" THEN <<"C05." \o r.out>>
   ELSE IF ~IdsValid(vals, r) THEN <<"C05.unknown_item">>
   ELSE IF ~IsInjectionIntoIds(Flatten(r.lists), Len(vals)) THEN <<"C05.item_used_twice">>
   ELSE IF \E j \in 1..Len(r.lists) : BinSum(vals, r.lists[j]) < C THEN <<"C05.bin_not_covered">>
   ELSE IF UnusedTotal(vals, r) >= C THEN <<"C05.leftovers_cover_a_bin">>
   ELSE <<>>

\* ---- C06 (first half): reported sums describe the reported bins
C06Fails(vals, C, r) ==
   IF r.out # "ret" THEN <<>>
   ELSE IF ~r.exact THEN <<"C06.sum_not_exact">>
   ELSE IF ~SumsDescribeBins(vals, r) THEN <<"C06.sums_do_not_describe_bins">>
   ELSE Flatten([j \in 1..Len(r.ots) |-> LET d == Disagrees(r.ots[j], r.sums, r.lists)
                                         IN IF d = "" THEN <<>> ELSE <<"C06." \o r.ots[j].t \o "." \o d>>])

\* ---- C09: any-fit invariant and bin-count bounds
Fit4 == {"ff", "ffd", "bf", "bfd"}
C09Fails(vals, C, r, mb) ==
   IF r.alg \notin Fit4 \/ Oversize(vals, C) \/ r.out # "ret" \/ ~IdsValid(vals, r) THEN <<>>
   ELSE LET m == Len(r.lists)
        IN (IF ~AnyFitInvariant(vals, C, r) THEN <<"C09.any_fit_invariant">> ELSE <<>>)
        \o (IF mb >= 0 /\ r.alg \in {"ff", "bf"} /\ 10 * m > 17 * mb THEN <<"C09.bound_1.7_OPT">> ELSE <<>>)
        \o (IF mb >= 0 /\ r.alg = "ffd" /\ 9 * m > 11 * mb + 6 THEN <<"C09.bound_ffd_11/9_OPT+6/9">> ELSE <<>>)
        \o (IF mb >= 0 /\ r.alg = "bfd" /\ 9 * m > 11 * mb + 36 THEN <<"C09.bound_bfd_11/9_OPT+4">> ELSE <<>>)

\* ---- C10: covering approximation guarantees (positive items)
C10Fails(vals, C, r, mc) ==
   IF r.alg \notin Covers \/ r.out # "ret" THEN <<>>
   ELSE LET m == Len(r.lists)
        IN (IF m > mc THEN <<"C10.more_than_OPT">> ELSE <<>>)
        \o (IF r.alg = "dec" /\ 2 * m < mc - 1 THEN <<"C10.decreasing_below_(OPT-1)/2">> ELSE <<>>)
        \o (IF r.alg = "tt" /\ 3 * m < 2 * (mc - 1) THEN <<"C10.twothirds_below_2/3(OPT-1)">> ELSE <<>>)
        \o (IF r.alg = "tq" /\ 4 * m < 3 * mc - 16 THEN <<"C10.threequarters_below_3/4OPT-4">> ELSE <<>>)

\* ---- C14: the documented rule, as the Textbook operators
C14Fails(vals, C, r) ==
   IF r.out # "ret" \/ ~IdsValid(vals, r) THEN <<>>
   ELSE IF r.alg \in Fit4 /\ ~Oversize(vals, C) THEN
        LET m == PackRun(r.alg, vals, C)
        IN IF ~SameBag(BinSums(vals, r.lists), m.s) THEN <<"C14.sums_differ_from_rule">>
           ELSE IF r.alg \in {"ff", "ffd"} /\ BagOfBins(vals, r.lists) # BagOfBins(vals, m.c) THEN <<"C14.bins_differ_from_rule">>
           ELSE <<>>
   ELSE IF r.alg \in Covers THEN
        LET m == CoverRun(r.alg, vals, C)
        IN IF ~SameBag(BinSums(vals, r.lists), BinSums(vals, m)) THEN <<"C14.sums_differ_from_rule">>
           ELSE IF BagOfBins(vals, r.lists) # BagOfBins(vals, m) THEN <<"C14.bins_differ_from_rule">>
           ELSE <<>>
   ELSE <<>>

\* ---- C19: an oversize item anywhere => ValueError, for every output type
C19Fails(vals, C, r) ==
   IF r.alg \notin Packers \/ ~Oversize(vals, C) THEN <<>>
   ELSE (IF r.out # "raise:ValueError" THEN <<"C19.answered_instead_of_ValueError:" \o r.out>> ELSE <<>>)
     \o (IF r.bcout \notin {"skip", "raise:ValueError"} THEN <<"C19.bincount_answered:" \o r.bcout>> ELSE <<>>)
     \o (IF r.soout \notin {"skip", "raise:ValueError"} THEN <<"C19.sums_answered:" \o r.soout>> ELSE <<>>)
     \o Flatten([j \in 1..Len(r.ots) |-> IF r.ots[j].out # "raise:ValueError" THEN <<"C19." \o r.ots[j].t \o "_answered:" \o r.ots[j].out>> ELSE <<>>])

\* ---- C07: the same call in another presentation; base = first event of the same algorithm
BaseOf(res, e) == res[Min({ j \in 1..e : res[j].alg = res[e].alg })]
C07Fails(vals, C, res, e) ==
   LET r == res[e]   b == BaseOf(res, e)
       named == r.fmt \in {"dict", "valueof", "falsydict", "emptystr", "iddict", "npscalardict"}
   IN IF r.out # b.out THEN <<"C07.outcome_differs_between_formats:" \o b.out \o "/" \o r.out>>
      ELSE IF r.out # "ret" THEN <<>>
      ELSE (IF ~r.exact \/ ~b.exact \/ ~SameBag(r.sums, b.sums) THEN <<"C07.sums_differ_between_formats">> ELSE <<>>)
        \o (IF named /\ ~(IdsValid(vals, r) /\ IsInjectionIntoIds(Flatten(r.lists), Len(vals))) THEN <<"C07.named_result_repeats_or_invents_names">> ELSE <<>>)
        \o (IF named /\ r.alg \in Packers /\ IdsValid(vals, r) /\ (\E i \in MissingIds(vals, r) : ~(r.alg = "bc" /\ vals[i] = 0)) THEN <<"C07.named_packing_loses_names">> ELSE <<>>)
        \o (IF named /\ IdsValid(vals, r) /\ ~SumsDescribeBins(vals, r) THEN <<"C07.named_bins_do_not_reproduce_sums">> ELSE <<>>)

EventFails(vals, C, r, mb, mc) ==
      (IF "C03" \in Active THEN C03Fails(vals, C, r) ELSE <<>>)
   \o (IF "C04" \in Active THEN C04Fails(vals, C, r, mb) ELSE <<>>)
   \o (IF "C05" \in Active THEN C05Fails(vals, C, r) ELSE <<>>)
   \o (IF "C06" \in Active THEN C06Fails(vals, C, r) ELSE <<>>)
   \o (IF "C09" \in Active THEN C09Fails(vals, C, r, mb) ELSE <<>>)
   \o (IF "C10" \in Active THEN C10Fails(vals, C, r, mc) ELSE <<>>)
   \o (IF "C14" \in Active THEN C14Fails(vals, C, r) ELSE <<>>)
   \o (IF "C19" \in Active THEN C19Fails(vals, C, r) ELSE <<>>)

\* oracles are evaluated once per input, and only when a clause needs them
NeedsMB(T) == Active \cap {"C04", "C09"} # {} /\ ~Oversize(T.vals, T.C) /\ T.orc = 1
NeedsMC(T) == "C10" \in Active /\ T.orc = 1
Verdict(T) ==
   LET mb == IF NeedsMB(T) THEN MinBins(T.vals, T.C) ELSE 0 - 1
       mc == IF NeedsMC(T) THEN MaxCover(T.vals, T.C) ELSE 0 - 1
       per == [e \in 1..Len(T.res) |-> LET fs == EventFails(T.vals, T.C, T.res[e], mb, mc)
                                              \o (IF "C07" \in Active THEN C07Fails(T.vals, T.C, T.res, e) ELSE <<>>)
                                       IN [j \in 1..Len(fs) |-> [e |-> e, c |-> fs[j]]]]
   IN Flatten(per)

Init == tid \in 1..Len(Traces) /\ phase = "call"
Judge == /\ phase = "call" /\ phase' = "judged"
         /\ PrintT("@@V " \o ToJson([tid |-> tid, n |-> Len(Traces[tid].res), fails |-> Verdict(Traces[tid])]))
         /\ UNCHANGED tid
Next == Judge
=============================================================================
