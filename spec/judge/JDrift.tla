------------------------------- MODULE JDrift -------------------------------
(***************************************************************************)
(* JUDGE for spec -> code replays: the L1 machine's own answer (emitted by *)
(* TLC together with the stimulus) against what the real code did on the   *)
(* same stimulus.  A difference is MODEL DRIFT, not a property violation:  *)
(* it means the model-checked argument has stopped covering the code.      *)
(* Each trace: [label, m (model), c (code)] - any JSON values.             *)
(***************************************************************************)
EXTENDS Naturals, Sequences, TLC, Json, IOUtils
CONSTANT Active
Traces == JsonDeserialize(IOEnv.TRACE_FILE)
VARIABLES tid, phase
\* compared through their JSON text: total even when the code side holds an outcome string ("raise:...") where the model holds a number
Verdict(T) == IF ToJson(T.m) = ToJson(T.c) THEN <<>> ELSE << [e |-> 1, c |-> "DRIFT." \o T.label] >>
Init == tid \in 1..Len(Traces) /\ phase = "call"
Judge == /\ phase = "call" /\ phase' = "judged"
         /\ PrintT("@@V " \o ToJson([tid |-> tid, n |-> 1, fails |-> Verdict(Traces[tid])]))
         /\ UNCHANGED tid
Next == Judge
=============================================================================
