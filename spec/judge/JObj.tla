-------------------------------- MODULE JObj --------------------------------
(***************************************************************************)
(* JUDGE for C20: recorded evaluations of prtpy.obj.<Objective>            *)
(* .value_to_minimize on one sum vector s.  Every event names the          *)
(* objective, its parameter (k or the weight vector), the container type   *)
(* and whether the sums were declared sorted; the value is an exact        *)
(* rational num/den (den = 0: the implementation returned something that   *)
(* is not such a number).                                                  *)
(***************************************************************************)
EXTENDS ObjectivesDoc, Json, IOUtils
CONSTANT Active
Traces == JsonDeserialize(IOEnv.TRACE_FILE)
VARIABLES tid, phase
EvFails(s, ev) ==
   IF ev.out # "ret" THEN <<"C20." \o ev.o \o ".not_computed:" \o ev.out>>
   ELSE IF ev.den = 0 THEN <<"C20." \o ev.o \o ".not_a_number_of_the_documented_form">>
   ELSE IF ev.o = "wminsum" THEN
        (IF ~REq(<<ev.num, ev.den>>, WValue(s, ev.w)) THEN <<"C20.wminsum.value_differs_from_definition">> ELSE <<>>)
   ELSE IF ev.den # 1 \/ ev.num # Value(ev.o, ev.kp, s) THEN <<"C20." \o ev.o \o (IF ev.sorted = 1 THEN ".fast_path" ELSE "") \o ".value_differs_from_definition">>
   ELSE <<>>
Verdict(T) == Flatten([e \in 1..Len(T.res) |-> LET fs == EvFails(T.s, T.res[e]) IN [j \in 1..Len(fs) |-> [e |-> e, c |-> fs[j]]]])
Init == tid \in 1..Len(Traces) /\ phase = "call"
Judge == /\ phase = "call" /\ phase' = "judged"
         /\ PrintT("@@V " \o ToJson([tid |-> tid, n |-> Len(Traces[tid].res), fails |-> Verdict(Traces[tid])]))
         /\ UNCHANGED tid
Next == Judge
=============================================================================
