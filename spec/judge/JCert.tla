------------------------------- MODULE JCert -------------------------------
(***************************************************************************)
(* JUDGE for instances too large for the exhaustive oracles: the harness   *)
(* supplies a CERTIFICATE of the optimum (the planted partition / packing /*)
(* cover); TLC checks the certificate itself and that it meets the         *)
(* arithmetic bound, which certifies OPT without search, and then judges   *)
(* the recorded results against that certified optimum.                    *)
(*   partition: cert is a partition into k bins of equal sums              *)
(*              => OPT(largest) = OPT(smallest) = total / k                *)
(***************************************************************************)
EXTENDS Contract, Json, IOUtils
CONSTANT Active
Traces == JsonDeserialize(IOEnv.TRACE_FILE)
VARIABLES tid, phase

CertOK(T) ==
   /\ IsPermutationOfIds(Flatten(T.cert), Len(T.vals))
   /\ Len(T.cert) = T.k
   /\ \A j \in 1..T.k : BinSum(T.vals, T.cert[j]) * T.k = SumSeq(T.vals)

C08Fails(vals, k, r, opt) ==
   IF r.alg \notin {"greedy", "kk", "multifit", "roundrobin"} \/ ~IsTruePartition(vals, k, r, r.alg = "multifit") THEN <<>>
   ELSE LET s0 == BinSums(vals, r.lists)
            s == s0 \o [j \in 1..(k - Len(s0)) |-> 0]
            mx == MaxSeq(s)   mn == MinSeq(s)
            p == 2 ^ (IF r.it > 10 THEN 10 ELSE r.it)
        IN (IF r.alg \in {"greedy", "kk"} /\ 3 * k * mx > (4 * k - 1) * opt THEN <<"C08.largest_sum_ratio">> ELSE <<>>)
           \o (IF r.alg = "greedy" /\ (4 * k - 2) * mn < (3 * k - 1) * opt THEN <<"C08.smallest_sum_ratio">> ELSE <<>>)
           \o (IF r.alg = "multifit" /\ mx * 100 * p > (122 * p + 100) * opt THEN <<"C08.multifit_ratio">> ELSE <<>>)
           \o (IF r.alg \in {"greedy", "kk", "roundrobin"} /\ ~GapWithinLargestItem(vals, s) THEN <<"C08.gap_exceeds_largest_item">> ELSE <<>>)
           \o (IF r.alg = "roundrobin" /\ ~RoundRobinShape([lists |-> r.lists, sums |-> s]) THEN <<"C08.roundrobin_shape">> ELSE <<>>)

Verdict(T) ==
   IF ~CertOK(T) THEN << [e |-> 0, c |-> "MACHINERY.bad_certificate"] >>
   ELSE LET opt == SumSeq(T.vals) \div T.k
            per == [e \in 1..Len(T.res) |-> LET fs == IF "C08" \in Active THEN C08Fails(T.vals, T.k, T.res[e], opt) ELSE <<>>
                                            IN [j \in 1..Len(fs) |-> [e |-> e, c |-> fs[j]]]]
        IN Flatten(per)

Init == tid \in 1..Len(Traces) /\ phase = "call"
Judge == /\ phase = "call" /\ phase' = "judged"
         /\ PrintT("@@V " \o ToJson([tid |-> tid, n |-> Len(Traces[tid].res), fails |-> Verdict(Traces[tid])]))
         /\ UNCHANGED tid
Next == Judge
=============================================================================
