------------------------------ MODULE JRefuse ------------------------------
(***************************************************************************)
(* JUDGE for C19 (second and third sentence): the balanced partitioner     *)
(* refuses, with ValueError, a call with exactly one invalid argument; a   *)
(* call with none is answered (control: the refusal is attributable to the *)
(* invalid argument); the sums-only bins-manager refuses to count items.   *)
(* A trace is a list of events [what, kind, arg, out].                     *)
(***************************************************************************)
EXTENDS Prt, Json, IOUtils
CONSTANT Active
Traces == JsonDeserialize(IOEnv.TRACE_FILE)
VARIABLES tid, phase
IsRaise(o) == Len(o) >= 6 /\ SubSeq(o, 1, 6) = "raise:"
EvFails(ev) ==
   IF ev.what = "cbldm" THEN
        IF ev.kind = "none" THEN (IF ev.out # "ret" THEN <<"C19.valid_cbldm_call_not_answered:" \o ev.out>> ELSE <<>>)
        ELSE (IF ev.out # "raise:ValueError" THEN <<"C19.cbldm_invalid_" \o ev.kind \o "_not_refused_with_ValueError:" \o ev.out>> ELSE <<>>)
   ELSE IF ev.what = "numitems_sums" THEN (IF ~IsRaise(ev.out) THEN <<"C19.sums_only_manager_counted_items:" \o ev.out>> ELSE <<>>)
   ELSE IF ev.what = "numitems_contents" THEN (IF ev.out # "ret" \/ ev.n # ev.expect THEN <<"C19.contents_manager_miscounted_items">> ELSE <<>>)
   ELSE <<>>
Verdict(T) == Flatten([e \in 1..Len(T.res) |-> LET fs == EvFails(T.res[e]) IN [j \in 1..Len(fs) |-> [e |-> e, c |-> fs[j]]]])
Init == tid \in 1..Len(Traces) /\ phase = "call"
Judge == /\ phase = "call" /\ phase' = "judged"
         /\ PrintT("@@V " \o ToJson([tid |-> tid, n |-> Len(Traces[tid].res), fails |-> Verdict(Traces[tid])]))
         /\ UNCHANGED tid
Next == Judge
=============================================================================
