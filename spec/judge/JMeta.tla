-------------------------------- MODULE JMeta --------------------------------
(***************************************************************************)
(* JUDGE for C18: metamorphic relations between calls on related inputs.   *)
(* A trace is a group of events on ONE base input; each event is a call of *)
(* an algorithm on a variant of it:                                        *)
(*    var = "base"                                                         *)
(*    var = "perm"   the items reordered                                   *)
(*    var = "scale"  every value (and the bin size) multiplied by f        *)
(*    var = "zeros"  zero-valued items added                               *)
(*    var = "agree"  (agreement groups) different algorithms, same input   *)
(* cls = "exact" | "sort" (heuristics that sort their input) | "online".   *)
(* Relations:                                                              *)
(*    perm : exact -> same objective value;  sort -> same bag of sums      *)
(*    scale: exact -> value multiplied by f; heuristics -> bag of sums     *)
(*           multiplied by f (also the online ones: decisions are          *)
(*           comparisons of sums, which commute with positive scaling)     *)
(*    zeros: exact -> same objective value                                 *)
(*    agree: all exact algorithms report the same value per objective and  *)
(*           no heuristic beats it                                         *)
(***************************************************************************)
EXTENDS ObjectivesDoc, Json, IOUtils
CONSTANT Active
Traces == JsonDeserialize(IOEnv.TRACE_FILE)
VARIABLES tid, phase
Same(a, b) == a.alg = b.alg /\ a.cfg = b.cfg /\ a.o = b.o /\ a.kp = b.kp
BaseIdx(evs, e) == { j \in 1..Len(evs) : evs[j].var = "base" /\ Same(evs[j], evs[e]) }
\* multifit may return fewer bins than requested: the missing bins are empty
Padded(ev) == IF ev.k > Len(ev.sums) THEN ev.sums \o [j \in 1..(ev.k - Len(ev.sums)) |-> 0] ELSE ev.sums
Val(ev) == Value(ev.o, ev.kp, Padded(ev))
Scaled(s, f) == [i \in 1..Len(s) |-> s[i] * f]
EvFails(evs, e) ==
   LET ev == evs[e]
   IN IF ev.var = "base" THEN <<>>
      ELSE IF ev.var = "agree" THEN
           LET ex == { j \in 1..Len(evs) : evs[j].cls = "exact" /\ evs[j].o = ev.o /\ evs[j].kp = ev.kp /\ evs[j].out = "ret" }
           IN IF ev.out # "ret" \/ ex = {} THEN <<>>
              ELSE IF ev.cls = "exact" THEN (IF \E j \in ex : Val(evs[j]) # Val(ev) THEN <<"C18.exact_algorithms_disagree_on_the_optimum">> ELSE <<>>)
              ELSE (IF \E j \in ex : Val(ev) < Val(evs[j]) THEN <<"C18.heuristic_beats_an_exact_algorithm">> ELSE <<>>)
      ELSE IF BaseIdx(evs, e) = {} THEN <<>>
      ELSE LET b == evs[Min(BaseIdx(evs, e))]
           IN IF b.out # "ret" \/ ev.out # "ret" THEN (IF b.out # ev.out THEN <<"C18." \o ev.var \o ".outcome_changes:" \o b.out \o "/" \o ev.out>> ELSE <<>>)
              ELSE IF ~ev.exact \/ ~b.exact THEN <<"C18.inexact_sum">>
              ELSE IF ev.var = "perm" THEN
                   (IF ev.cls = "exact" THEN (IF Val(ev) # Val(b) THEN <<"C18.perm.optimal_value_changes_with_input_order">> ELSE <<>>)
                    ELSE IF ev.cls = "sort" THEN (IF ~SameBag(ev.sums, b.sums) THEN <<"C18.perm.sums_change_with_input_order">> ELSE <<>>)
                    ELSE <<>>)
              ELSE IF ev.var = "scale" THEN
                   (IF ev.cls = "exact" THEN (IF Val(ev) # ev.f * Val(b) THEN <<"C18.scale.optimal_value_not_multiplied">> ELSE <<>>)
                    ELSE (IF ~SameBag(ev.sums, Scaled(b.sums, ev.f)) THEN <<"C18.scale.sums_not_multiplied">> ELSE <<>>))
              ELSE IF ev.var = "zeros" THEN
                   (IF ev.cls = "exact" /\ Val(ev) # Val(b) THEN <<"C18.zeros.optimal_value_changes_with_added_zeros">> ELSE <<>>)
              ELSE <<>>
Verdict(T) == Flatten([e \in 1..Len(T.events) |-> LET fs == EvFails(T.events, e) IN [j \in 1..Len(fs) |-> [e |-> e, c |-> fs[j]]]])
Init == tid \in 1..Len(Traces) /\ phase = "call"
Judge == /\ phase = "call" /\ phase' = "judged"
         /\ PrintT("@@V " \o ToJson([tid |-> tid, n |-> Len(Traces[tid].events), fails |-> Verdict(Traces[tid])]))
         /\ UNCHANGED tid
Next == Judge
=============================================================================
