----------------------------- MODULE JAnytime -----------------------------
(***************************************************************************)
(* JUDGE (trace specification) for C11.  A trace is the CUT HISTORY of one *)
(* anytime run: the result obtained when the limit test fires at the c-th  *)
(* clock reading, for c = 1, 2, ..., R and finally with no limit - or, for *)
(* the CKK generator, the sequence of yields.  The judge steps through the *)
(* history with the abstract anytime search of Anytime.tla: between two    *)
(* consecutive cut points the search may only Improve.                     *)
(*   step c accepted iff  result_c is None and the incumbent is None, or   *)
(*                        result_c is a true partition whose value is not  *)
(*                        worse than the incumbent's (strictly better for  *)
(*                        generator yields)                                *)
(* plus: complete greedy's first solution has the LPT bag of sums; the     *)
(* last entry attains the optimum (Opt, or OptBalanced for CBLDM).         *)
(***************************************************************************)
EXTENDS Contract, Textbook, Json, IOUtils
CONSTANT Active
Traces == JsonDeserialize(IOEnv.TRACE_FILE)
VARIABLES tid, l, incv, hasinc, verdict, phase
T == Traces[tid]
AbsI(x) == IF x < 0 THEN 0 - x ELSE x
ValOfR(r) == IF T.alg = "cbldm" THEN LET s == BinSums(T.vals, r.lists) IN AbsI(s[1] - s[2])
             ELSE Value(T.o, 0, BinSums(T.vals, r.lists))
Feasible(r) == /\ IsTruePartition(T.vals, T.k, r, FALSE)
               /\ (T.alg = "cbldm" => AbsI(Len(r.lists[1]) - Len(r.lists[2])) <= T.d)
OptVal == IF T.alg = "cbldm" THEN OptBalanced(T.vals, T.d) ELSE Opt(T.o, 0, T.vals, T.k)
NCuts == Len(T.cuts)

Clause(r) ==
   IF r.out = "none" THEN (IF hasinc THEN "C11.result_lost:returns_no_solution_after_having_had_one" ELSE "")
   ELSE IF r.out # "ret" THEN "C11.interrupted_run_failed:" \o r.out
   ELSE IF ~Feasible(r) THEN "C11.interrupted_result_is_not_a_valid_partition"
   ELSE IF T.alg = "ckkgen" /\ r.lists_end # r.lists THEN "C11.yielded_partition_mutated_after_the_yield"
   ELSE IF hasinc /\ ValOfR(r) > incv THEN "C11.result_got_worse_with_a_larger_limit"
   ELSE IF hasinc /\ T.alg = "ckkgen" /\ ValOfR(r) >= incv THEN "C11.generator_yield_not_strictly_better"
   ELSE IF ~hasinc /\ T.alg = "cg" /\ ValOfR(r) > Value(T.o, 0, GreedyRun(T.vals, T.k).s) THEN "C11.first_solution_worse_than_the_greedy_one"
   ELSE IF ~hasinc /\ T.alg = "cg" /\ ~SameBag(BinSums(T.vals, r.lists), GreedyRun(T.vals, T.k).s) THEN "C11.first_solution_is_not_the_greedy_one"
   ELSE IF l = NCuts /\ ValOfR(r) # OptVal THEN "C11.unlimited_result_not_optimal"
   ELSE ""

Init == tid \in 1..Len(Traces) /\ l = 1 /\ incv = 0 /\ hasinc = FALSE /\ verdict = <<>> /\ phase = "run"
\* every cut point is examined: a rejected step is recorded and the history goes on (the incumbent is updated whenever the result can be valued)
Step == /\ phase = "run" /\ l <= NCuts
        /\ LET r == T.cuts[l]
               cl0 == Clause(r)
               cl == IF cl0 = "" /\ l = NCuts /\ r.out = "none" THEN "C11.unlimited_run_returned_no_solution" ELSE cl0
           IN /\ l' = l + 1 /\ UNCHANGED phase
              /\ verdict' = IF cl = "" \/ Len(verdict) >= 4 THEN verdict ELSE Append(verdict, [e |-> l, c |-> cl])
              /\ IF r.out = "ret" /\ Feasible(r) THEN hasinc' = TRUE /\ incv' = ValOfR(r) ELSE UNCHANGED <<hasinc, incv>>
        /\ UNCHANGED tid
Finish == /\ phase = "run" /\ l > NCuts
          /\ phase' = "reported"
          /\ PrintT("@@V " \o ToJson([tid |-> tid, n |-> NCuts, fails |-> verdict]))
          /\ UNCHANGED <<tid, l, incv, hasinc, verdict>>
Next == Step \/ Finish
=============================================================================
