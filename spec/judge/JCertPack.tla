----------------------------- MODULE JCertPack -----------------------------
(***************************************************************************)
(* JUDGE for packing / covering instances too large for the subset-DP      *)
(* oracles.  The harness supplies a certificate: a planted packing whose   *)
(* bins are all exactly full.  TLC checks the certificate; then            *)
(*   total = OPT * C, so no packing uses fewer and no cover fills more     *)
(*   than OPT = total / C bins.                                            *)
(* With an empty certificate only the arithmetic bounds are used:          *)
(*   packing: OPT >= ceil(total / C);  covering: OPT <= floor(total / C).  *)
(***************************************************************************)
EXTENDS Contract, Json, IOUtils
CONSTANT Active
Traces == JsonDeserialize(IOEnv.TRACE_FILE)
VARIABLES tid, phase

HasCert(T) == Len(T.cert) > 0
CertOK(T) ==
   \/ ~HasCert(T)
   \/ /\ IsPermutationOfIds(Flatten(T.cert), Len(T.vals))
      /\ \A j \in 1..Len(T.cert) : BinSum(T.vals, T.cert[j]) = T.C

Fit4 == {"ff", "ffd", "bf", "bfd"}
\* lower bound on OPT for packing (exact when certified)
PackLB(T) == CeilDiv(SumSeq(T.vals), T.C)
C09Fails(T, r) ==
   IF r.alg \notin Fit4 \/ r.out # "ret" \/ ~IdsValid(T.vals, r) THEN <<>>
   ELSE LET m == Len(r.lists)   lb == PackLB(T)
        IN (IF ~AnyFitInvariant(T.vals, T.C, r) THEN <<"C09.any_fit_invariant">> ELSE <<>>)
        \o (IF HasCert(T) /\ r.alg \in {"ff", "bf"} /\ 10 * m > 17 * lb THEN <<"C09.bound_1.7_OPT">> ELSE <<>>)
        \o (IF HasCert(T) /\ r.alg = "ffd" /\ 9 * m > 11 * lb + 6 THEN <<"C09.bound_ffd_11/9_OPT+6/9">> ELSE <<>>)
        \o (IF HasCert(T) /\ r.alg = "bfd" /\ 9 * m > 11 * lb + 36 THEN <<"C09.bound_bfd_11/9_OPT+4">> ELSE <<>>)

\* C04 beyond the subset-DP oracle: with a certified perfect packing OPT = total / C exactly, so bin completion must not use more bins than that
C04Fails(T, r) ==
   IF r.alg # "bc" \/ ~HasCert(T) THEN <<>>
   ELSE IF r.out # "ret" THEN <<"C04." \o r.out>>
   ELSE IF ~IdsValid(T.vals, r) THEN <<>>
   ELSE IF Len(r.lists) > Len(T.cert) THEN <<"C04.more_bins_than_the_planted_perfect_packing">> ELSE <<>>

Covers == {"dec", "tt", "tq"}
CoverUB(T) == SumSeq(T.vals) \div T.C
\* r.opt: for the published worst-case families the harness states OPT (checked against the arithmetic bound OPT <= floor(total/C));
\* with a certificate OPT = total/C exactly
C10Fails(T, r) ==
   IF r.alg \notin Covers \/ r.out # "ret" THEN <<>>
   ELSE LET m == Len(r.lists)
            opt == IF HasCert(T) THEN CoverUB(T) ELSE T.opt
        IN (IF m > CoverUB(T) THEN <<"C10.more_than_OPT">> ELSE <<>>)
        \o (IF r.alg = "dec" /\ 2 * m < opt - 1 THEN <<"C10.decreasing_below_(OPT-1)/2">> ELSE <<>>)
        \o (IF r.alg = "tt" /\ 3 * m < 2 * (opt - 1) THEN <<"C10.twothirds_below_2/3(OPT-1)">> ELSE <<>>)
        \o (IF r.alg = "tq" /\ 4 * m < 3 * opt - 16 THEN <<"C10.threequarters_below_3/4OPT-4">> ELSE <<>>)

\* a stated OPT for a family must itself be witnessed: the harness gives the witness cover in T.wit (bins each >= C)
WitOK(T) == \/ HasCert(T)
            \/ /\ IsInjectionIntoIds(Flatten(T.wit), Len(T.vals))
               /\ Len(T.wit) = T.opt
               /\ \A j \in 1..Len(T.wit) : BinSum(T.vals, T.wit[j]) >= T.C

Verdict(T) ==
   IF ~CertOK(T) THEN << [e |-> 0, c |-> "MACHINERY.bad_certificate"] >>
   ELSE IF "C10" \in Active /\ ~WitOK(T) THEN << [e |-> 0, c |-> "MACHINERY.bad_witness_cover"] >>
   ELSE LET per == [e \in 1..Len(T.res) |->
                      LET fs == (IF "C09" \in Active THEN C09Fails(T, T.res[e]) ELSE <<>>)
                             \o (IF "C04" \in Active THEN C04Fails(T, T.res[e]) ELSE <<>>)
                             \o (IF "C10" \in Active THEN C10Fails(T, T.res[e]) ELSE <<>>)
                      IN [j \in 1..Len(fs) |-> [e |-> e, c |-> fs[j]]]]
        IN Flatten(per)

Init == tid \in 1..Len(Traces) /\ phase = "call"
Judge == /\ phase = "call" /\ phase' = "judged"
         /\ PrintT("@@V " \o ToJson([tid |-> tid, n |-> Len(Traces[tid].res), fails |-> Verdict(Traces[tid])]))
         /\ UNCHANGED tid
Next == Judge
=============================================================================
