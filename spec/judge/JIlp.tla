-------------------------------- MODULE JIlp --------------------------------
(***************************************************************************)
(* JUDGE for C17: recorded calls of the integer-programming partitioner    *)
(* with its options.  A trace is ONE call:                                 *)
(*   vals, k, o, kp          items (by id), bins, objective                *)
(*   copies                  per-item number of copies (0, 1 or 2)         *)
(*   w                       positive integer weights, one per bin (all 1  *)
(*                           when none were given); wgiven = 1 if the      *)
(*                           caller passed weights                         *)
(*   cons, c                 additional constraint: "none", "smallest_eq", *)
(*                           "largest_le", "smallest_ge" with constant c   *)
(*   inject                  "" or the solver status forced on the call    *)
(*   out, lists, sums        what came back                                *)
(*                                                                         *)
(* Ground truth: every assignment of the item copies to the k bins is      *)
(* enumerated (ReachU).  Weighted sums are kept in integers by scaling     *)
(* with L = product of the weights: ws[i] = s[i] * (L / w[i]).             *)
(*   S2  the problem the MIP states: weighted sums ascending in bin index  *)
(*   S1  the problem the documentation states: any assignment, objective   *)
(*       and constraints on the smallest / largest weighted sum            *)
(* For equal weights S1 = S2 (bins are interchangeable).                   *)
(***************************************************************************)
EXTENDS Contract, Json, IOUtils
CONSTANT Active
Traces == JsonDeserialize(IOEnv.TRACE_FILE)
VARIABLES tid, phase

Prod(w) == FoldLeft(LAMBDA a, b: a * b, 1, w)
WS(s, w) == LET L == Prod(w) IN [i \in 1..Len(s) |-> s[i] * (L \div w[i])]
Expanded(vals, copies) == Flatten([i \in 1..Len(vals) |-> [t \in 1..copies[i] |-> vals[i]]])
AllEqual(w) == \A i, j \in 1..Len(w) : w[i] = w[j]

\* the caller's constraint, on the smallest / largest weighted sum (scaled by L)
ConsHolds(cons, c, ws, L) ==
   CASE cons = "none"        -> TRUE
     [] cons = "smallest_eq" -> MinSeq(ws) = c * L
     [] cons = "largest_le"  -> MaxSeq(ws) <= c * L
     [] cons = "smallest_ge" -> MinSeq(ws) >= c * L

Verdict(T) ==
   LET k == T.k   w == T.w   L == Prod(w)
       ex == Expanded(T.vals, T.copies)
       U == IF Len(ex) = 0 THEN {[b \in 1..k |-> 0]} ELSE FinalSumsU(ex, k)
       F1 == { WS(u, w) : u \in { u \in U : ConsHolds(T.cons, T.c, WS(u, w), L) } }
       F2 == { x \in F1 : NonDec(x) }
       r == [out |-> T.out, lists |-> T.lists, sums |-> T.sums, exact |-> T.exact]
       count(i) == Cardinality({ <<j, t>> \in UNION { {j} \X (1..Len(T.lists[j])) : j \in 1..Len(T.lists) } : T.lists[j][t] = i })
       fs ==
         IF T.inject # "" THEN (IF T.out # "raise:ValueError" THEN <<"C17.returned_although_solver_status_was_" \o T.inject \o ":" \o T.out>> ELSE <<>>)
         ELSE IF F2 = {} /\ F1 = {} THEN (IF T.out # "raise:ValueError" THEN <<"C17.infeasible_request_not_refused_with_ValueError:" \o T.out>> ELSE <<>>)
         ELSE IF F2 = {} THEN (IF T.out # "raise:ValueError" THEN <<"C17.order_infeasible_request_answered:" \o T.out>> ELSE <<"C17.S1.refused_although_a_partition_satisfies_the_request">>)
         ELSE IF T.out # "ret" THEN <<"C17.feasible_request_failed:" \o T.out>>
         ELSE IF (T.fmt = "dict" /\ ~IdsValid(T.vals, r)) \/ Len(T.lists) # k \/ Len(T.lvals) # k THEN <<"C17.malformed_result">>
         ELSE LET \* plain-list input: an item IS its value, so the result is read as bins of values and copies are counted per value
                  bv == IF T.fmt = "list" THEN T.lvals ELSE [j \in 1..k |-> ValsOf(T.vals, T.lists[j])]
                  s == [j \in 1..k |-> SumSeq(bv[j])]
                  ws == WS(s, w)
                  flatv == Flatten(bv)
                  occ(u) == Cardinality({ t \in 1..Len(flatv) : flatv[t] = u })
                  wantocc(u) == SumSeq([i \in 1..Len(T.vals) |-> IF T.vals[i] = u THEN T.copies[i] ELSE 0])
                  copiesOK == IF T.fmt = "list" THEN \A u \in SeqRange(T.vals) \cup SeqRange(flatv) : occ(u) = wantocc(u)
                                                ELSE \A i \in 1..Len(T.vals) : count(i) = T.copies[i]
              IN (IF ~copiesOK THEN <<"C17.copies_not_honoured">> ELSE <<>>)
              \o (IF ~T.exact \/ T.sums # s THEN <<"C17.sums_do_not_describe_bins">> ELSE <<>>)
              \o (IF AllEqual(w) /\ ~NonDec(s) THEN <<"C17.sums_not_ascending">> ELSE <<>>)
              \o (IF ~AllEqual(w) /\ ~NonDec(ws) THEN <<"C17.bin_i_is_not_the_bin_of_weight_i">> ELSE <<>>)
              \o (IF ~ConsHolds(T.cons, T.c, ws, L) THEN <<"C17.additional_constraint_violated">> ELSE <<>>)
              \o (IF Value(T.o, T.kp, ws) # OptOver(T.o, T.kp, F2) THEN <<"C17.not_optimal_among_constrained_partitions">>
                  ELSE IF Value(T.o, T.kp, ws) # OptOver(T.o, T.kp, F1) THEN <<"C17.S1.not_optimal_over_all_weighted_assignments">> ELSE <<>>)
       \* the recorded SOLVER ANSWER x[item][bin] against Build - the MIP the code is supposed to state: integer counts >= 0, every item placed
       \* copies times, weighted sums ascending in bin index, the caller's constraint, optimal among such (S2); and the extraction of the result
       xs == [b \in 1..k |-> SumSeq([i \in 1..Len(T.vals) |-> T.x[i][b] * T.vals[i]])]
       bs == IF Len(T.x) = 0 \/ T.out # "ret" \/ T.inject # "" \/ F2 = {} THEN <<>>
             ELSE IF \E i \in 1..Len(T.x) : \E b \in 1..k : T.x[i][b] < 0 THEN <<"C17.solver_answer_not_integral_or_negative">>
             ELSE (IF \E i \in 1..Len(T.x) : SumSeq(T.x[i]) # T.copies[i] THEN <<"C17.model_lets_an_item_be_placed_a_wrong_number_of_times">> ELSE <<>>)
               \o (IF ~NonDec(WS(xs, w)) THEN <<"C17.model_misses_the_ascending_order_constraint">> ELSE <<>>)
               \o (IF ~ConsHolds(T.cons, T.c, WS(xs, w), L) THEN <<"C17.model_misses_the_additional_constraint">> ELSE <<>>)
               \o (IF Value(T.o, T.kp, WS(xs, w)) # OptOver(T.o, T.kp, F2) THEN <<"C17.solver_answer_not_optimal_for_the_stated_model">> ELSE <<>>)
               \o (IF ~SameBag(xs, IF T.fmt = "list" THEN [j \in 1..k |-> SumSeq(T.lvals[j])] ELSE BinSums(T.vals, T.lists)) THEN <<"C17.result_not_read_back_from_the_solver_answer">> ELSE <<>>)
       all == fs \o bs
   IN [j \in 1..Len(all) |-> [e |-> 1, c |-> all[j]]]

Init == tid \in 1..Len(Traces) /\ phase = "call"
Judge == /\ phase = "call" /\ phase' = "judged"
         /\ PrintT("@@V " \o ToJson([tid |-> tid, n |-> 1, fails |-> Verdict(Traces[tid])]))
         /\ UNCHANGED tid
Next == Judge
=============================================================================
