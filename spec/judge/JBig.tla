-------------------------------- MODULE JBig --------------------------------
(***************************************************************************)
(* JUDGE for the MAGNITUDE tier: item values between 2^24 and 2^50 (bin    *)
(* sums exact in float64, total < 2^53), far beyond TLC's 32-bit integers. *)
(* Numbers travel as two limbs (BigNat.tla).  Clauses that need only       *)
(* addition and comparison are judged here:                                *)
(*   C01  every item exactly once, requested number of bins                *)
(*   C06  each reported sum = total of the reported bin; every sums-only   *)
(*        output = what the full output implies                            *)
(*   C20  largest / smallest / difference / k-largest / k-smallest of a    *)
(*        sum vector (sign and magnitude)                                  *)
(* A trace: vals (limb pairs), k, res = events [alg, out, lists, sums,     *)
(* exact, ots = [t, out, v (limb pairs), exact]], objs = events            *)
(* [o, kp, s (limb pairs), out, neg, mag].                                 *)
(***************************************************************************)
EXTENDS BigNat, FiniteSets, TLC, Json, IOUtils
CONSTANT Active
Traces == JsonDeserialize(IOEnv.TRACE_FILE)
VARIABLES tid, phase
Flat(ss) == FoldLeft(LAMBDA acc, b: acc \o b, <<>>, ss)
Rng(s) == {s[i] : i \in DOMAIN s}
BinTotal(vals, b) == BSum([t \in 1..Len(b) |-> vals[b[t]]])
IdsOK(vals, lists) == \A j \in 1..Len(lists) : \A t \in 1..Len(lists[j]) : lists[j][t] \in 1..Len(vals)

Derive(t, s) ==
   CASE t = "Sums" -> s [] t = "SortedSums" -> BSortAsc(s)
     [] t = "LargestSum" -> <<BMax(s)>> [] t = "SmallestSum" -> <<BMin(s)>>
     [] t = "ExtremeSums" -> <<BMin(s), BMax(s)>> [] t = "Difference" -> <<BSub(BMax(s), BMin(s))>>
     [] t = "PartitionAndSums" -> s [] t = "PartitionAndSumsTuple" -> s [] OTHER -> <<>>

ResFails(T, r) ==
   IF r.out # "ret" THEN (IF "C01" \in Active THEN <<"C01." \o r.out>> ELSE <<>>)
   ELSE IF ~IdsOK(T.vals, r.lists) THEN <<"C01.unknown_item">>
   ELSE LET flat == Flat(r.lists)
            true == [j \in 1..Len(r.lists) |-> BinTotal(T.vals, r.lists[j])]
        IN (IF "C01" \in Active /\ (Len(r.lists) # T.k /\ r.alg # "multifit") THEN <<"C01.bin_count">> ELSE <<>>)
        \o (IF "C01" \in Active /\ ~(Len(flat) = Len(T.vals) /\ Rng(flat) = 1..Len(T.vals)) THEN <<"C01.items_not_exactly_once">> ELSE <<>>)
        \o (IF "C06" \in Active /\ (~r.exact \/ r.sums # true) THEN <<"C06.sums_do_not_describe_bins">> ELSE <<>>)
        \o (IF "C06" \in Active THEN
               Flat([x \in 1..Len(r.ots) |->
                  LET y == r.ots[x]
                  IN IF y.t \in {"Partition", "BinCount"} THEN <<>>
                     ELSE IF y.out # "ret" THEN <<"C06." \o y.t \o ".fails_where_full_output_succeeds:" \o y.out>>
                     ELSE IF ~y.exact \/ y.v # Derive(y.t, true) THEN <<"C06." \o y.t \o ".numbers_differ">> ELSE <<>>])
            ELSE <<>>)

KSum(s, kp, largest) == LET a == BSortAsc(s)   m == IF kp < Len(a) THEN kp ELSE Len(a)
                        IN IF largest THEN BSum(SubSeq(a, Len(a) - m + 1, Len(a))) ELSE BSum(SubSeq(a, 1, m))
ObjFails(ev) ==
   IF "C20" \notin Active THEN <<>>
   ELSE IF ev.out # "ret" THEN <<"C20." \o ev.o \o ".not_computed:" \o ev.out>>
   ELSE LET want == CASE ev.o = "maxsum" -> [neg |-> 0, mag |-> BMax(ev.s)]
                      [] ev.o = "minsum" -> [neg |-> 1, mag |-> BMin(ev.s)]
                      [] ev.o = "diff"   -> [neg |-> 0, mag |-> BSub(BMax(ev.s), BMin(ev.s))]
                      [] ev.o = "klargest"  -> [neg |-> 0, mag |-> KSum(ev.s, ev.kp, TRUE)]
                      [] ev.o = "ksmallest" -> [neg |-> 1, mag |-> KSum(ev.s, ev.kp, FALSE)]
        IN IF ~ev.exact \/ ev.mag # want.mag \/ (ev.neg # want.neg /\ want.mag # BZero) THEN <<"C20." \o ev.o \o ".value_differs_from_definition">> ELSE <<>>

Verdict(T) ==
   Flat([e \in 1..Len(T.res) |-> LET fs == ResFails(T, T.res[e]) IN [j \in 1..Len(fs) |-> [e |-> e, c |-> fs[j]]]])
   \o Flat([e \in 1..Len(T.objs) |-> LET fs == ObjFails(T.objs[e]) IN [j \in 1..Len(fs) |-> [e |-> Len(T.res) + e, c |-> fs[j]]]])
Init == tid \in 1..Len(Traces) /\ phase = "call"
Judge == /\ phase = "call" /\ phase' = "judged"
         /\ PrintT("@@V " \o ToJson([tid |-> tid, n |-> Len(Traces[tid].res) + Len(Traces[tid].objs), fails |-> Verdict(Traces[tid])]))
         /\ UNCHANGED tid
Next == Judge
=============================================================================
