------------------------------- MODULE JHeur -------------------------------
(***************************************************************************)
(* JUDGE (stepwise trace specification) for the simple heuristics: the     *)
(* sequence of add_item_to_bin operations that the real algorithm performs *)
(* on its bins-manager (recorded by a logging manager passed as `binner`)  *)
(* is stepped through the textbook machine: event l must be exactly the    *)
(* placement the rule prescribes next - which item, into which bin.        *)
(* This is finer than any listed property (which speak about results), so  *)
(* a mismatch is MODEL DRIFT; it also validates the premise of C09 that    *)
(* the order of bins and of items inside bins is the placement order.      *)
(***************************************************************************)
EXTENDS Contract, Textbook, Json, IOUtils
CONSTANT Active
Traces == JsonDeserialize(IOEnv.TRACE_FILE)
VARIABLES tid, l, verdict, want
T == Traces[tid]
n(TT) == Len(TT.vals)
\* the prescribed placement sequence << [id, bin] >>
PartSeq(alg, vals, k) ==
   LET ord == SortDescIds(vals, IdSeq(Len(vals)))
       step(acc, j) == LET b == IF alg = "greedy" THEN GreedyPick(acc.st) ELSE ((j - 1) % k) + 1
                       IN [st |-> PutIn(acc.st, vals, ord[j], b), seq |-> Append(acc.seq, [id |-> ord[j], bin |-> b])]
   IN FoldLeft(step, [st |-> Arr(k), seq |-> <<>>], IdSeq(Len(vals))).seq
FitSeq(alg, vals, C) ==
   LET ord == FitOrder(alg \in {"ffd", "bfd"}, vals)
       rule == IF alg \in {"ff", "ffd"} THEN "first" ELSE "best"
       step(acc, id) == LET F == FitsIn(acc.st, vals, id, C)
                            b == IF F = {} THEN Len(acc.st.s) + 1 ELSE IF rule = "first" THEN FirstFitPick(acc.st, vals, id, C) ELSE BestFitPick(acc.st, vals, id, C)
                        IN [st |-> FitStep(rule, acc.st, vals, id, C), seq |-> Append(acc.seq, [id |-> id, bin |-> b])]
   IN FoldLeft(step, [st |-> FitStart, seq |-> <<>>], ord).seq
\* covers: every item is added to the bin that is open at that moment; the bins (closed ones, then the last open one) list their items in placement order
CoverFull(alg, vals, C) ==
   CASE alg = "dec" -> LET r == DecAll(CovStart, vals, SortDescIds(vals, IdSeq(Len(vals))), C) IN Append(r.closed, r.cur)
     [] alg = "tt"  -> LET r == TTLoop([cv |-> CovStart, lst |-> SortDescIds(vals, IdSeq(Len(vals)))], vals, C).cv IN Append(r.closed, r.cur)
     [] alg = "tq"  -> LET r == TQLoop(TQStart(vals, C), vals, C).cv IN Append(r.closed, r.cur)
CoverSeq(alg, vals, C) == LET bins == CoverFull(alg, vals, C)
                          IN Flatten([j \in 1..Len(bins) |-> [t \in 1..Len(bins[j]) |-> [id |-> bins[j][t], bin |-> j]]])
Expected(TT) == IF TT.alg \in {"greedy", "roundrobin"} THEN PartSeq(TT.alg, TT.vals, TT.k)
                ELSE IF TT.alg \in {"ff", "ffd", "bf", "bfd"} THEN FitSeq(TT.alg, TT.vals, TT.C) ELSE CoverSeq(TT.alg, TT.vals, TT.C)
Init == tid \in 1..Len(Traces) /\ l = 1 /\ verdict = <<>> /\ want = Expected(Traces[tid])
Step == /\ verdict = <<>> /\ l <= Len(T.adds)
        /\ IF l <= Len(want) /\ T.adds[l].id = want[l].id /\ T.adds[l].bin = want[l].bin THEN l' = l + 1 /\ UNCHANGED verdict
           ELSE verdict' = << [e |-> l, c |-> "DRIFT.heur." \o T.alg \o ".placement_differs_from_the_rule"] >> /\ UNCHANGED l
        /\ UNCHANGED <<tid, want>>
Finish == /\ (verdict # <<>> \/ l > Len(T.adds)) /\ l < 1000000
          /\ l' = 1000000
          /\ PrintT("@@V " \o ToJson([tid |-> tid, n |-> Len(T.adds),
                     fails |-> IF verdict = <<>> /\ T.out = "ret" /\ Len(T.adds) # Len(want) THEN << [e |-> l, c |-> "DRIFT.heur." \o T.alg \o ".fewer_placements_than_the_rule"] >> ELSE verdict]))
          /\ UNCHANGED <<tid, verdict, want>>
Next == Step \/ Finish
=============================================================================
