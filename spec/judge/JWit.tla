------------------------------- MODULE JWit --------------------------------
(***************************************************************************)
(* JUDGE for C02 beyond the size of the exhaustive oracle: the harness     *)
(* supplies, with every stimulus, a WITNESS partition wit (found by its    *)
(* own exhaustive search).  TLC does not trust it: it checks that wit is a *)
(* partition of the items into k bins and computes its value itself.  A    *)
(* result of an exact algorithm whose value is WORSE than the witness's is *)
(* not optimal - whatever the optimum is.  (A wrong or sub-optimal witness *)
(* can only let a violation go unreported, never create one.)              *)
(* Each trace: [vals, k, wit, res: <<[alg, o, kp, out, lists, ...]>>].     *)
(***************************************************************************)
EXTENDS Contract, Json, IOUtils
CONSTANT Active
Traces == JsonDeserialize(IOEnv.TRACE_FILE)
VARIABLES tid, phase

WitOK(T) == /\ Len(T.wit) = T.k
            /\ \A j \in 1..Len(T.wit) : \A t \in 1..Len(T.wit[j]) : T.wit[j][t] \in 1..Len(T.vals)
            /\ IsPermutationOfIds(Flatten(T.wit), Len(T.vals))

Fails(T, r) ==
   IF ~IsTruePartition(T.vals, T.k, r, FALSE) THEN <<"C02.no_valid_partition:" \o r.out>>
   ELSE IF ValueOfResult(r.o, r.kp, T.vals, r) > Value(r.o, r.kp, BinSums(T.vals, T.wit))
        THEN <<"C02.not_optimal_a_better_partition_exists">>
   ELSE <<>>

Verdict(T) ==
   IF ~WitOK(T) THEN << [e |-> 0, c |-> "MACHINERY.bad_witness"] >>
   ELSE Flatten([e \in 1..Len(T.res) |-> LET fs == IF "C02" \in Active THEN Fails(T, T.res[e]) ELSE <<>>
                                         IN [j \in 1..Len(fs) |-> [e |-> e, c |-> fs[j]]]])

Init == tid \in 1..Len(Traces) /\ phase = "call"
Judge == /\ phase = "call" /\ phase' = "judged"
         /\ PrintT("@@V " \o ToJson([tid |-> tid, n |-> Len(Traces[tid].res), fails |-> Verdict(Traces[tid])]))
         /\ UNCHANGED tid
Next == Judge
=============================================================================
