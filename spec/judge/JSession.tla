----------------------------- MODULE JSession -----------------------------
(***************************************************************************)
(* JUDGE (trace specification) for C15: a recorded call history of one     *)
(* interpreter is stepped through Session.tla.  Every event carries the    *)
(* call c, a digest of the canonical form of what it returned (ret), the   *)
(* digest of the same call's answer in a fresh interpreter (fresh; and     *)
(* fresh2 under another hash seed), and digests of the argument objects    *)
(* before and after the call.  Step l is accepted iff                      *)
(*     ret = fresh   /\   before = after   /\   fresh = fresh2             *)
(* AMBIENT STATE.  amb0 / amb1 digest, before and after the call, the       *)
(* interpreter-wide settings that later calls depend on (recursion limit,  *)
(* numpy error handling): the stateless service of                         *)
(* Session.tla has no such variable, so a call must leave them as found -   *)
(* otherwise some later call (one that recurses deeply, one that overflows) *)
(* answers differently than in a fresh interpreter.                        *)
(* CALLER-OWNED OBJECTS.  Some menu calls name an object (ev.obj # ""): the *)
(* caller keeps ONE dict / list / value table per name for the whole        *)
(* history, overwrites its contents before the call (callers update and     *)
(* re-use their own containers) and passes that very object.  The service   *)
(* stays stateless: the answer is still Fresh[c], the answer of the call    *)
(* with a container of the same contents in a fresh interpreter.  `used` is *)
(* the set of object names already passed (what an implementation that      *)
(* remembers containers by identity could depend on).                       *)
(***************************************************************************)
EXTENDS Naturals, Sequences, TLC, Json, IOUtils
CONSTANT Active
Traces == JsonDeserialize(IOEnv.TRACE_FILE)
VARIABLES tid, l, hist, used, verdict
T == Traces[tid]
Clause(ev) ==
   IF ev.before # ev.after THEN "C15.argument_modified_by_the_call"
   ELSE IF ev.amb0 # ev.amb1 THEN "C15.call_leaves_interpreter_wide_state_changed_that_later_calls_depend_on"
   ELSE IF ev.fresh # ev.fresh2 THEN "C15.result_depends_on_hash_seed"
   ELSE IF ev.ret # ev.fresh THEN
        (IF \E j \in 1..Len(hist) : hist[j] = ev.c THEN "C15.repeated_call_gives_a_different_result"
         ELSE IF ev.obj # "" /\ ev.obj \in used THEN "C15.result_depends_on_an_earlier_state_of_the_callers_object"
         ELSE "C15.result_depends_on_earlier_calls")
   ELSE ""
Init == tid \in 1..Len(Traces) /\ l = 1 /\ hist = <<>> /\ used = {} /\ verdict = <<>>
Step == /\ l <= Len(T.events)
        /\ LET ev == T.events[l]   cl == Clause(ev)
           IN /\ hist' = Append(hist, ev.c) /\ l' = l + 1          \* Session!Invoke(ev.c)
              /\ used' = IF ev.obj = "" THEN used ELSE used \cup {ev.obj}
              /\ verdict' = IF cl = "" \/ Len(verdict) >= 3 THEN verdict ELSE Append(verdict, [e |-> l, c |-> cl])
        /\ UNCHANGED tid
Finish == /\ l = Len(T.events) + 1 /\ l' = l + 1
          /\ PrintT("@@V " \o ToJson([tid |-> tid, n |-> Len(T.events), fails |-> verdict]))
          /\ UNCHANGED <<tid, hist, used, verdict>>
Next == Step \/ Finish
=============================================================================
