----------------------------- MODULE JSession -----------------------------
(***************************************************************************)
(* JUDGE (trace specification) for C15: a recorded call history of one     *)
(* interpreter is stepped through Session.tla.  Every event carries the    *)
(* call c, a digest of the canonical form of what it returned (ret), the   *)
(* digest of the same call's answer in a fresh interpreter (fresh; and     *)
(* fresh2 under another hash seed), and digests of the argument objects    *)
(* before and after the call.  Step l is accepted iff                      *)
(*     ret = fresh   /\   before = after   /\   fresh = fresh2             *)
(***************************************************************************)
EXTENDS Naturals, Sequences, TLC, Json, IOUtils
CONSTANT Active
Traces == JsonDeserialize(IOEnv.TRACE_FILE)
VARIABLES tid, l, hist, verdict
T == Traces[tid]
Clause(ev) ==
   IF ev.before # ev.after THEN "C15.argument_modified_by_the_call"
   ELSE IF ev.fresh # ev.fresh2 THEN "C15.result_depends_on_hash_seed"
   ELSE IF ev.ret # ev.fresh THEN
        (IF \E j \in 1..Len(hist) : hist[j] = ev.c THEN "C15.repeated_call_gives_a_different_result" ELSE "C15.result_depends_on_earlier_calls")
   ELSE ""
Init == tid \in 1..Len(Traces) /\ l = 1 /\ hist = <<>> /\ verdict = <<>>
Step == /\ l <= Len(T.events)
        /\ LET ev == T.events[l]   cl == Clause(ev)
           IN /\ hist' = Append(hist, ev.c) /\ l' = l + 1          \* Session!Invoke(ev.c)
              /\ verdict' = IF cl = "" \/ Len(verdict) >= 3 THEN verdict ELSE Append(verdict, [e |-> l, c |-> cl])
        /\ UNCHANGED tid
Finish == /\ l = Len(T.events) + 1 /\ l' = l + 1
          /\ PrintT("@@V " \o ToJson([tid |-> tid, n |-> Len(T.events), fails |-> verdict]))
          /\ UNCHANGED <<tid, hist, verdict>>
Next == Step \/ Finish
=============================================================================
