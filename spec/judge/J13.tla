-------------------------------- MODULE J13 --------------------------------
(***************************************************************************)
(* JUDGE for C13: recorded calls of the documented extension points        *)
(*   Objective.lower_bound        (kind "bound")                           *)
(*   InExclusionBinTree.generate_tree   (kind "tree")                      *)
(*   Binner.all_combinations      (kind "comb", both managers)             *)
(* against ground truth computed by TLC: BestReach, SubsetsInWindow,       *)
(* PairingsBySums / PairingsByContents.                                    *)
(***************************************************************************)
EXTENDS Bounds, Json, IOUtils
CONSTANT Active
Traces == JsonDeserialize(IOEnv.TRACE_FILE)
VARIABLES tid, phase
PermTable == [k \in 1..5 |-> LexPerms(1..k)]
PermSet(k) == { PermTable[k][j] : j \in 1..Len(PermTable[k]) }

\* bound events: [o, flag, perm (the order in which the sums were passed), out, v, exact]
BoundFails(T) ==
   LET s == SortAsc(T.s)
       ref(o) == LET c == { e \in 1..Len(T.res) : T.res[e].o = o /\ T.res[e].out = "ret" /\ T.res[e].exact } IN IF c = {} THEN 0 ELSE T.res[Min(c)].v
   IN Flatten([e \in 1..Len(T.res) |->
        LET ev == T.res[e]
            fs == IF ev.out # "ret" THEN <<"C13.bound_not_computed:" \o ev.out>>
                  ELSE IF ev.kp > 0 THEN      \* k-largest / k-smallest sums: the inherited trivial bound (minus infinity) or any admissible value
                       (IF ev.ninf = 1 THEN <<>>
                        ELSE IF ~ev.exact THEN <<"C13.bound_not_an_integer">>
                        ELSE IF ev.v > Min({ Value(ev.o, ev.kp, [b \in 1..Len(s) |-> s[b] + c[b]]) : c \in Compositions(T.R, Len(s)) })
                             THEN <<"C13." \o ev.o \o ".bound_exceeds_best_reachable_value">> ELSE <<>>)
                  ELSE IF ~ev.exact THEN <<"C13.bound_not_an_integer">>
                  ELSE (IF ev.v > BestReach(ev.o, s, T.R) THEN <<"C13." \o ev.o \o ".bound_exceeds_best_reachable_value">> ELSE <<>>)
                    \o (IF ev.v # ref(ev.o) THEN <<"C13." \o ev.o \o ".bound_depends_on_sorted_flag_or_order">> ELSE <<>>)
                    \o (IF ev.v # LB(ev.o, s, T.R) THEN <<"DRIFT.C13." \o ev.o \o ".bound_differs_from_transcribed_formula">> ELSE <<>>)
        IN [j \in 1..Len(fs) |-> [e |-> e, c |-> fs[j]]]])

\* tree trace: vals, lb2, ub2 (window = [lb2/2, ub2/2]), out, yields = sequence of id lists
AsSet(q) == { q[i] : i \in DOMAIN q }
TreeFails(T) ==
   IF T.out # "ret" THEN << [e |-> 0, c |-> "C13.tree_failed:" \o T.out] >>
   ELSE LET ys == [i \in 1..Len(T.yields) |-> AsSet(T.yields[i])]
            want == SubsetsInWindow(T.vals, <<T.lb2, 2>>, <<T.ub2, 2>>)
            fs == (IF \E i \in 1..Len(T.yields) : Cardinality(ys[i]) # Len(T.yields[i]) \/ ~(ys[i] \subseteq 1..Len(T.vals)) THEN <<"C13.tree_yields_something_that_is_not_a_sub_collection">> ELSE <<>>)
               \o (IF \E i, j \in 1..Len(ys) : i < j /\ ys[i] = ys[j] THEN <<"C13.tree_yields_a_sub_collection_twice">> ELSE <<>>)
               \o (IF AsSet(ys) \ want # {} THEN <<"C13.tree_yields_outside_window">> ELSE <<>>)
               \o (IF want \ AsSet(ys) # {} THEN <<"C13.tree_misses_a_sub_collection_in_window">> ELSE <<>>)
        IN [j \in 1..Len(fs) |-> [e |-> 0, c |-> fs[j]]]

\* comb trace: c1, c2 (bins as sequences of values); res = << [mgr, out, ys] >> with ys = sequence of [s, c]
Canon(c) == SortSeq([i \in 1..Len(c) |-> SortAsc(c[i])], LexLeq)
CombFails(T) ==
   LET k == Len(T.c1)
       s1 == [i \in 1..k |-> SumSeq(T.c1[i])]   s2 == [i \in 1..k |-> SumSeq(T.c2[i])]
   IN Flatten([e \in 1..Len(T.res) |->
        LET ev == T.res[e]
            fs == IF ev.out # "ret" THEN <<"C13.all_combinations_failed:" \o ev.out>>
                  ELSE IF ev.mgr = "sums" THEN
                       LET ys == [i \in 1..Len(ev.ys) |-> SortAsc(ev.ys[i].s)]
                           want == PairingsBySums(s1, s2, PermSet(k))
                       IN (IF \E i, j \in 1..Len(ys) : i < j /\ ys[i] = ys[j] THEN <<"C13.sums_manager_yields_a_pairing_twice">> ELSE <<>>)
                       \o (IF AsSet(ys) \ want # {} THEN <<"C13.sums_manager_yields_a_non_pairing">> ELSE <<>>)
                       \o (IF want \ AsSet(ys) # {} THEN <<"C13.sums_manager_misses_a_pairing">> ELSE <<>>)
                  ELSE LET ys == [i \in 1..Len(ev.ys) |-> Canon(ev.ys[i].c)]
                           want == PairingsByContents(T.c1, T.c2, PermSet(k))
                       IN (IF \E i, j \in 1..Len(ys) : i < j /\ ys[i] = ys[j] THEN <<"C13.contents_manager_yields_a_pairing_twice">> ELSE <<>>)
                       \o (IF AsSet(ys) \ want # {} THEN <<"C13.contents_manager_yields_a_non_pairing">> ELSE <<>>)
                       \o (IF want \ AsSet(ys) # {} THEN <<"C13.contents_manager_misses_a_pairing">> ELSE <<>>)
                       \o (IF \E i \in 1..Len(ev.ys) : ev.ys[i].s # [b \in 1..Len(ev.ys[i].c) |-> SumSeq(ev.ys[i].c[b])] THEN <<"C13.contents_manager_sums_do_not_describe_bins">> ELSE <<>>)
        IN [j \in 1..Len(fs) |-> [e |-> e, c |-> fs[j]]]])

Verdict(T) == CASE T.kind = "bound" -> BoundFails(T) [] T.kind = "tree" -> TreeFails(T) [] T.kind = "comb" -> CombFails(T)
Init == tid \in 1..Len(Traces) /\ phase = "call"
Judge == /\ phase = "call" /\ phase' = "judged"
         /\ PrintT("@@V " \o ToJson([tid |-> tid, n |-> 1, fails |-> Verdict(Traces[tid])]))
         /\ UNCHANGED tid
Next == Judge
=============================================================================
