------------------------------ MODULE JBinner ------------------------------
(***************************************************************************)
(* JUDGE (trace specification) for C16: a recorded history of operations   *)
(* on a real prtpy bins-manager is stepped through the value model         *)
(* BinnerVal - one step per recorded operation, using BinnerVal's own      *)
(* guards G_x and results R_x - and must be a behaviour of it.             *)
(*                                                                         *)
(* Every event carries the operation, its arguments, and the projected     *)
(* state of ALL live arrays after it (st), plus what is seen through the   *)
(* OLD handles of handed-over arguments right after the call (args).       *)
(* The verdict is total: the first operation that is not explainable is    *)
(* named together with the failing clause                                  *)
(*    effect_differs            the named array is not what the doc says   *)
(*    disturbs_other_array      a live array the operation does not name   *)
(*                              changed (copies not independent, aliasing) *)
(*    argument_altered          the call itself changed an argument that   *)
(*                              is documented as unmodified                *)
(*    sums_inconsistent         a bin's sum is not the total of its items  *)
(* "addbad" is an addition of an item for which the value function raises: *)
(* the manager must reject it (out = "ret" records that it did) and leave  *)
(* every array unchanged (Expected = v).                                   *)
(***************************************************************************)
EXTENDS BinnerVal, Json, IOUtils
CONSTANT Active
Traces == JsonDeserialize(IOEnv.TRACE_FILE)
VARIABLES tid, l, verdict, phase
jvars == <<v, live, keep, tid, l, verdict, phase>>
T == Traces[tid]

Obs(st)     == [a \in Slots |-> IF a <= Len(st) /\ st[a].live = 1 THEN st[a].bins ELSE <<>>]
ObsLive(st) == { a \in Slots : a <= Len(st) /\ st[a].live = 1 }

Guard(ev) == CASE ev.op = "new"      -> G_new(live, v, ev.a, ev.n)
               [] ev.op = "add"      -> G_add(live, v, ev.a, ev.i)
               [] ev.op = "addbad"   -> G_add(live, v, ev.a, ev.i)
               [] ev.op = "copy"     -> G_copy(live, ev.a, ev.b)
               [] ev.op = "sort"     -> G_sort(live, ev.a)
               [] ev.op = "addempty" -> G_addempty(live, v, ev.a, ev.n)
               [] ev.op = "remove"   -> G_remove(live, v, ev.a, ev.n)
               [] ev.op = "concat"   -> G_concat(live, v, ev.a, ev.b)
               [] ev.op = "combine"  -> G_combine(live, v, ev.a, ev.i, ev.b, ev.j)
               [] OTHER -> FALSE
\* the documented effect; for sort the recorded order is adopted if it is a valid sort of the old array
Expected(ev, O) ==
            CASE ev.op = "new"      -> R_new(v, ev.a, ev.n)
               [] ev.op = "add"      -> R_add(v, keep, ev.a, ev.it, ev.i)
               [] ev.op = "addbad"   -> v     \* a rejected addition leaves every array as it was
               [] ev.op = "copy"     -> R_copy(v, ev.a, ev.b)
               [] ev.op = "sort"     -> IF IsSortOf(O[ev.a], v[ev.a]) THEN [v EXCEPT ![ev.a] = O[ev.a]] ELSE v
               [] ev.op = "addempty" -> R_addempty(v, ev.a, ev.n)
               [] ev.op = "remove"   -> R_remove(v, ev.a, ev.n)
               [] ev.op = "concat"   -> R_concat(v, ev.a, ev.b)
               [] ev.op = "combine"  -> R_combine(v, ev.a, ev.i, ev.b, ev.j)
ExpLive(ev) == CASE ev.op = "new" -> live \cup {ev.a} [] ev.op = "copy" -> live \cup {ev.b} [] ev.op = "concat" -> live \ {ev.b} [] OTHER -> live
Named(ev) == CASE ev.op = "copy" -> {ev.b} [] ev.op = "concat" -> {ev.a, ev.b} [] OTHER -> {ev.a}

Clause(ev) ==
   LET O == Obs(ev.st)   E == Expected(ev, O)   EL == ExpLive(ev)
   IN IF ev.out # "ret" THEN "C16." \o ev.op \o ".failed:" \o ev.out
      ELSE IF ~Guard(ev) THEN "MACHINERY.operation_not_enabled_in_the_model"
      ELSE IF \E a \in (live \cap EL) \ Named(ev) : O[a] # v[a] \/ a \notin ObsLive(ev.st) THEN "C16." \o ev.op \o ".disturbs_other_array"
      ELSE IF \E t \in 1..Len(ev.args) : ev.args[t].bins # v[ev.args[t].slot] THEN "C16." \o ev.op \o ".argument_altered_by_the_call"
      ELSE IF ObsLive(ev.st) # EL \/ \E a \in Named(ev) \cap EL : O[a] # E[a]
              \/ (ev.op = "sort" /\ ~IsSortOf(O[ev.a], v[ev.a])) THEN       \* a sort that leaves an unsorted array as it was is not a sort either
              (IF ev.op = "sort" THEN "C16.sort.not_a_joint_permutation_into_non_decreasing_sums" ELSE "C16." \o ev.op \o ".effect_differs_from_documentation")
      ELSE IF \E a \in EL : \E i \in 1..Len(O[a]) : ~BinConsistent(O[a][i], keep) THEN "C16." \o ev.op \o ".sums_inconsistent_with_contents"
      ELSE ""

Init == /\ tid \in 1..Len(Traces) /\ l = 1 /\ verdict = <<>> /\ phase = "run"
        /\ v = [a \in Slots |-> <<>>] /\ live = {} /\ keep = (Traces[tid].mgr = "contents")
Step == /\ phase = "run" /\ l <= Len(T.ops)
        /\ LET ev == T.ops[l]   cl == Clause(ev)
           IN IF cl = "" THEN /\ v' = Expected(ev, Obs(ev.st)) /\ live' = ExpLive(ev) /\ l' = l + 1 /\ UNCHANGED <<verdict, phase>>
              ELSE /\ verdict' = << [e |-> l, c |-> cl] >> /\ phase' = "stop" /\ UNCHANGED <<v, live, l>>
        /\ UNCHANGED <<tid, keep>>
Finish == /\ (phase = "stop" \/ (phase = "run" /\ l > Len(T.ops)))
          /\ phase' = "reported"
          /\ PrintT("@@V " \o ToJson([tid |-> tid, n |-> Len(T.ops), fails |-> verdict]))
          /\ UNCHANGED <<v, live, keep, tid, l, verdict>>
Next == Step \/ Finish
\* the model's own invariants hold along every accepted prefix
ModelConsistent == SumsConsistentV /\ DeadSlotsEmpty
=============================================================================
