------------------------------- MODULE JScan -------------------------------
(***************************************************************************)
(* JUDGE (stepwise trace specification) for C19 over REQUEST HISTORIES: a  *)
(* caller scans bin sizes for ONE collection of items in one interpreter   *)
(* (descending, ascending or in random order - looking for the smallest    *)
(* feasible capacity is the typical use of a packer).  The specification   *)
(* of the service is stateless:                                            *)
(*     Request(C):  some item > C  =>  the answer is ValueError            *)
(* whatever was asked before.  One recorded event [C, out] is consumed per *)
(* step; `asked` is the history of bin sizes already requested (it is what *)
(* an implementation with a memory could depend on, and what the failing   *)
(* clause reports).                                                        *)
(* A trace: vals, alg, fmt, ot, events = <<[C, out]>>.                     *)
(***************************************************************************)
EXTENDS Prt, Json, IOUtils
CONSTANT Active
Traces == JsonDeserialize(IOEnv.TRACE_FILE)
VARIABLES tid, l, asked, verdict
T == Traces[tid]
Oversize(vals, C) == \E i \in 1..Len(vals) : vals[i] > C
Clause(ev) ==
   IF "C19" \notin Active \/ ~Oversize(T.vals, ev.C) \/ ev.out = "raise:ValueError" THEN ""
   ELSE IF \E j \in 1..Len(asked) : ~Oversize(T.vals, asked[j])
        THEN "C19.oversize_request_answered_after_a_satisfiable_one:" \o ev.out
        ELSE "C19.answered_instead_of_ValueError:" \o ev.out
Init == tid \in 1..Len(Traces) /\ l = 1 /\ asked = <<>> /\ verdict = <<>>
Request == /\ l <= Len(T.events)
           /\ LET ev == T.events[l]   cl == Clause(ev)
              IN /\ asked' = Append(asked, ev.C) /\ l' = l + 1
                 /\ verdict' = IF cl = "" \/ Len(verdict) >= 3 THEN verdict ELSE Append(verdict, [e |-> l, c |-> cl])
           /\ UNCHANGED tid
Finish == /\ l = Len(T.events) + 1 /\ l' = l + 1
          /\ PrintT("@@V " \o ToJson([tid |-> tid, n |-> Len(T.events), fails |-> verdict]))
          /\ UNCHANGED <<tid, asked, verdict>>
Next == Request \/ Finish
=============================================================================
