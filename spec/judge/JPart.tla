------------------------------- MODULE JPart -------------------------------
(***************************************************************************)
(* JUDGE for recorded executions of prtpy.partition (code -> spec).        *)
(* A trace is the history of calls made on ONE input (vals, k): every      *)
(* event is a call/return of one algorithm under one configuration.  The   *)
(* judge takes one step per trace, evaluates the active Contract clauses   *)
(* on every return event, and emits a total verdict: the list of           *)
(* (event, failing clause) pairs - empty when the history is accepted.     *)
(* Ground truth (Opt...) is computed once per input, in TLA+.              *)
(***************************************************************************)
EXTENDS Contract, Textbook, OutputTypes, Json, IOUtils
CONSTANT Active        \* the properties whose clauses are switched on, e.g. {"C01"}

Traces == JsonDeserialize(IOEnv.TRACE_FILE)
VARIABLES tid, phase
vars == <<tid, phase>>

Exact(alg) == alg \in {"dp", "ilp", "cg", "ckk", "snp", "rnp"}
FewerAllowed(alg) == alg = "multifit"

\* ---- one return event r of a history on (vals, k); F = FinalSums(vals,k), shared by the events of the history
C01Fails(vals, k, r) ==
   IF r.out = "none" THEN <<"C01.result_missing">>
   ELSE IF r.out # "ret" THEN <<"C01." \o r.out>>
   ELSE IF ~(IF FewerAllowed(r.alg) THEN CountAtMost(r, k) ELSE CountIs(r, k)) THEN <<"C01.bin_count">>
   ELSE IF ~EveryItemOnce(vals, r) THEN <<"C01.items_not_exactly_once">>
   ELSE <<>>

C02Fails(vals, k, r, F) ==
   IF ~Exact(r.alg) THEN <<>>
   ELSE IF ~IsTruePartition(vals, k, r, FALSE) THEN <<"C02.no_valid_partition:" \o r.out>>
   ELSE IF ValueOfResult(r.o, r.kp, vals, r) # OptOver(r.o, r.kp, F) THEN <<"C02.not_optimal">>
   ELSE <<>>

C06Fails(vals, k, r) ==
   IF r.out # "ret" THEN <<>>           \* nothing reported, nothing to describe (C01 owns missing results)
   ELSE IF ~r.exact THEN <<"C06.sum_not_exact">>
   ELSE IF ~SumsDescribeBins(vals, r) THEN <<"C06.sums_do_not_describe_bins">>
   ELSE Flatten([j \in 1..Len(r.ots) |-> LET d == Disagrees(r.ots[j], r.sums, r.lists)
                                         IN IF d = "" THEN <<>> ELSE <<"C06." \o r.ots[j].t \o "." \o d>>])

\* C08: ratio bounds need a valid result; judged on the bins' true sums
C08Fails(vals, k, r, F) ==
   IF r.alg \notin {"greedy", "kk", "multifit", "roundrobin"} \/ ~IsTruePartition(vals, k, r, FewerAllowed(r.alg)) THEN <<>>
   ELSE LET s0 == BinSums(vals, r.lists)
            \* multifit may return fewer bins: the missing ones are empty
            s == s0 \o [j \in 1..(k - Len(s0)) |-> 0]
            mx == MaxSeq(s)
            mn == MinSeq(s)
            optmax == OptOver("maxsum", 0, F)
            optmin == 0 - OptOver("minsum", 0, F)
        IN (IF r.alg \in {"greedy", "kk"} /\ k >= 2 /\ 3 * k * mx > (4 * k - 1) * optmax THEN <<"C08.largest_sum_ratio">> ELSE <<>>)
           \o (IF r.alg = "greedy" /\ k >= 2 /\ (4 * k - 2) * mn < (3 * k - 1) * optmin THEN <<"C08.smallest_sum_ratio">> ELSE <<>>)
           \o (IF r.alg = "multifit" /\ k >= 2 /\ mx * 100 * (2 ^ r.it) > (122 * (2 ^ r.it) + 100) * optmax THEN <<"C08.multifit_ratio">> ELSE <<>>)
           \o (IF r.alg \in {"greedy", "kk", "roundrobin"} /\ ~GapWithinLargestItem(vals, s) THEN <<"C08.gap_exceeds_largest_item">> ELSE <<>>)
           \o (IF r.alg = "roundrobin" /\ ~RoundRobinShape([lists |-> r.lists, sums |-> s]) THEN <<"C08.roundrobin_shape">> ELSE <<>>)

\* C12: cbldm with cardinality bound r.d (>= n means unbounded)
C12Fails(vals, k, r) ==
   IF r.alg # "cbldm" THEN <<>>
   ELSE IF ~IsTruePartition(vals, 2, r, FALSE) THEN <<"C12.no_valid_partition:" \o r.out>>
   ELSE LET l1 == Len(r.lists[1])  l2 == Len(r.lists[2])
            s == BinSums(vals, r.lists)
            AbsI(x) == IF x < 0 THEN 0 - x ELSE x
        IN IF AbsI(l1 - l2) > r.d THEN <<"C12.cardinality_bound">>
           ELSE IF AbsI(s[1] - s[2]) # OptBalanced(vals, r.d) THEN <<"C12.not_optimal_under_bound">>
           ELSE <<>>

\* C14: the simple partition heuristics against their textbook rule
C14Fails(vals, k, r) ==
   IF r.alg \notin {"greedy", "roundrobin"} \/ r.out # "ret" \/ ~IdsValid(vals, r) THEN <<>>
   ELSE LET m == IF r.alg = "greedy" THEN GreedyRun(vals, k) ELSE RoundRobinRun(vals, k)
            s == BinSums(vals, r.lists)
        IN IF ~SameBag(s, m.s) THEN <<"C14.sums_differ_from_rule">>
           ELSE IF r.alg = "roundrobin" /\ BagOfBins(vals, r.lists) # BagOfBins(vals, m.c) THEN <<"C14.bins_differ_from_rule">>
           ELSE <<>>
\* presentations in which the items carry names (the returned bins are then judged over the names)
NamedFmts == {"dict", "valueof", "falsydict", "emptystr", "iddict", "npscalardict"}

\* C07: the same call in another presentation (list / numpy array / dict / names+valueof).  base = the first event of the
\* history with the same algorithm and configuration.
SameCall(a, b) == a.alg = b.alg /\ a.cfg = b.cfg /\ a.it = b.it /\ a.d = b.d
BaseOf(res, e) == res[Min({ j \in 1..e : SameCall(res[j], res[e]) })]
C07Fails(vals, k, res, e) ==
   LET r == res[e]   b == BaseOf(res, e)
   IN IF r.out # b.out THEN <<"C07.outcome_differs_between_formats:" \o b.out \o "/" \o r.out>>
      ELSE IF r.out # "ret" THEN <<>>
      ELSE (IF ~r.exact \/ ~b.exact \/ ~SameBag(r.sums, b.sums) THEN <<"C07.sums_differ_between_formats">> ELSE <<>>)
        \o (IF r.fmt \in NamedFmts /\ ~(IdsValid(vals, r) /\ EveryItemOnce(vals, r)) THEN <<"C07.named_result_not_a_partition_of_the_names">> ELSE <<>>)
        \o (IF r.fmt \in NamedFmts /\ IdsValid(vals, r) /\ ~SumsDescribeBins(vals, r) THEN <<"C07.named_bins_do_not_reproduce_sums">> ELSE <<>>)

EventFails(vals, k, r, F) ==
      (IF "C01" \in Active THEN C01Fails(vals, k, r) ELSE <<>>)
   \o (IF "C02" \in Active THEN C02Fails(vals, k, r, F) ELSE <<>>)
   \o (IF "C06" \in Active THEN C06Fails(vals, k, r) ELSE <<>>)
   \o (IF "C08" \in Active THEN C08Fails(vals, k, r, F) ELSE <<>>)
   \o (IF "C12" \in Active THEN C12Fails(vals, k, r) ELSE <<>>)
   \o (IF "C14" \in Active THEN C14Fails(vals, k, r) ELSE <<>>)

NeedsF == Active \cap {"C02", "C08"} # {}
Verdict(T) ==
   LET F == IF NeedsF THEN FinalSums(T.vals, T.k) ELSE {}
       per == [e \in 1..Len(T.res) |-> LET fs == EventFails(T.vals, T.k, T.res[e], F)
                                              \o (IF "C07" \in Active THEN C07Fails(T.vals, T.k, T.res, e) ELSE <<>>)
                                       IN [j \in 1..Len(fs) |-> [e |-> e, c |-> fs[j]]]]
   IN Flatten(per)

Init == tid \in 1..Len(Traces) /\ phase = "call"
Judge == /\ phase = "call"
         /\ phase' = "judged"
         /\ PrintT("@@V " \o ToJson([tid |-> tid, n |-> Len(Traces[tid].res), fails |-> Verdict(Traces[tid])]))
         /\ UNCHANGED tid
Next == Judge
=============================================================================
