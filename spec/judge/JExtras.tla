------------------------------ MODULE JExtras ------------------------------
(* JUDGE for spec/alg/Extras.tla (behaviour outside the listed properties; clauses are prefixed X.) *)
EXTENDS Extras, Json, IOUtils
CONSTANT Active
Traces == JsonDeserialize(IOEnv.TRACE_FILE)
VARIABLES tid, phase
SnakeFails(T) ==
   LET r == T.res
   IN IF r.out # "ret" THEN <<"X.snake.failed:" \o r.out>>
      ELSE IF ~IsTruePartition(T.vals, T.k, r, FALSE) THEN <<"X.snake.not_a_partition">>
      ELSE (IF r.lists # SnakeRun(T.vals, T.k).c THEN <<"X.snake.differs_from_ABCCBA_rule">> ELSE <<>>)
        \o (IF ~SnakeShape(r) THEN <<"X.snake.cardinalities_differ_by_more_than_one">> ELSE <<>>)
        \o (IF ~SumsDescribeBins(T.vals, r) THEN <<"X.snake.sums_do_not_describe_bins">> ELSE <<>>)
\* lower bounds: value = num / C (num recorded exactly); admissible iff num <= MinBins * C
BoundFails(T) ==
   IF T.out # "ret" THEN <<"X." \o T.which \o ".failed:" \o T.out>>
   ELSE IF ~T.exact THEN <<"X." \o T.which \o ".not_a_multiple_of_1/binsize">>
   ELSE IF T.num > MinBins(T.vals, T.C) * T.C THEN <<"X." \o T.which \o ".exceeds_the_minimum_number_of_bins">> ELSE <<>>
CompareFails(T) == IF T.out # "ret" THEN <<"X.compare.failed:" \o T.out>>
                   ELSE IF (T.ans = 1) # (T.o1 = T.o2) THEN <<"X.compare.answer_differs_from_equality_of_outputs">> ELSE <<>>
Verdict(T) == LET fs == CASE T.kind = "snake" -> SnakeFails(T) [] T.kind = "bound" -> BoundFails(T) [] T.kind = "compare" -> CompareFails(T)
              IN [j \in 1..Len(fs) |-> [e |-> 1, c |-> fs[j]]]
Init == tid \in 1..Len(Traces) /\ phase = "call"
Judge == /\ phase = "call" /\ phase' = "judged"
         /\ PrintT("@@V " \o ToJson([tid |-> tid, n |-> 1, fails |-> Verdict(Traces[tid])]))
         /\ UNCHANGED tid
Next == Judge
=============================================================================
