---------------------------- MODULE JBigRefuse -----------------------------
(***************************************************************************)
(* JUDGE for C19 at magnitudes beyond TLC's integers (bin sizes of 2^53    *)
(* and 10^16, an item one or two units larger): numbers travel as two      *)
(* limbs (BigNat.tla).  TLC decides itself that the request is oversize    *)
(* (some item > bin size, limb comparison); every recorded call on such a  *)
(* request must have been refused with ValueError.                         *)
(* A trace: vals (limb pairs), C (limb pair), res = <<[alg, fmt, ot, out]>>*)
(***************************************************************************)
EXTENDS BigNat, TLC, Json, IOUtils
CONSTANT Active
Traces == JsonDeserialize(IOEnv.TRACE_FILE)
VARIABLES tid, phase
Oversize(T) == \E i \in 1..Len(T.vals) : BLt(T.C, T.vals[i])
Verdict(T) ==
   IF "C19" \notin Active THEN <<>>
   ELSE IF ~Oversize(T) THEN << [e |-> 0, c |-> "MACHINERY.request_is_not_oversize"] >>
   ELSE LET bad == { e \in 1..Len(T.res) : T.res[e].out # "raise:ValueError" }
        IN IF bad = {} THEN <<>>
           ELSE LET e == CHOOSE x \in bad : \A y \in bad : x <= y
                IN << [e |-> e, c |-> "C19.oversize_item_not_refused_with_ValueError:" \o T.res[e].out] >>
Init == tid \in 1..Len(Traces) /\ phase = "call"
Judge == /\ phase = "call" /\ phase' = "judged"
         /\ PrintT("@@V " \o ToJson([tid |-> tid, n |-> Len(Traces[tid].res), fails |-> Verdict(Traces[tid])]))
         /\ UNCHANGED tid
Next == Judge
=============================================================================
