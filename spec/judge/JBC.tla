-------------------------------- MODULE JBC --------------------------------
(***************************************************************************)
(* JUDGE for the assumptions under which BinCompletion.tla was model-      *)
(* checked, on direct calls of the real helper functions of                *)
(* prtpy/packing/bin_completion_utils.py:                                  *)
(*   kind "comp"  find_bin_completions(x, items, binsize) -> completions   *)
(*        every completion is a feasible sub-bag of items, none is listed  *)
(*        twice, and every feasible completion is dominated by a listed    *)
(*        one (COVERING - assumption (B) of the model)                     *)
(*   kind "dom"   is_dominant(l1, l2) = the dominance relation             *)
(* A failure here is MODEL DRIFT (the model-checked argument no longer     *)
(* covers the code); whether the packer's answer is still minimal is       *)
(* decided by C04's own clauses.                                           *)
(***************************************************************************)
EXTENDS Prt, Json, IOUtils
CONSTANT Active
Traces == JsonDeserialize(IOEnv.TRACE_FILE)
VARIABLES tid, phase
DominatesV(s1, s2) ==
   IF Len(s2) = 0 THEN TRUE ELSE IF Len(s1) = 0 THEN FALSE
   ELSE \E f \in [1..Len(s2) -> 1..Len(s1)] : \A a \in 1..Len(s1) : SumSeq([b \in 1..Len(s2) |-> IF f[b] = a THEN s2[b] ELSE 0]) <= s1[a]
Count(s, u) == Cardinality({ j \in 1..Len(s) : s[j] = u })
IsSubBagOf(c, items) == \A j \in 1..Len(c) : Count(c, c[j]) <= Count(items, c[j])
FeasibleSubBags(x, items, C) ==
   { SortDsc([j \in 1..Cardinality(S) |-> items[SetToSortSeq(S, <)[j]]]) : S \in { S \in SUBSET (1..Len(items)) : x + SumSeq([j \in 1..Len(items) |-> IF j \in S THEN items[j] ELSE 0]) <= C } }
CompFails(T) ==
   IF T.out # "ret" THEN <<"DRIFT.bc.find_bin_completions_failed:" \o T.out>>
   ELSE LET K == [j \in 1..Len(T.comps) |-> SortDsc(T.comps[j])]
        IN (IF \E j \in 1..Len(K) : ~IsSubBagOf(K[j], T.items) \/ T.x + SumSeq(K[j]) > T.C THEN <<"DRIFT.bc.completion_not_a_feasible_sub_bag">> ELSE <<>>)
        \o (IF \E i, j \in 1..Len(K) : i < j /\ K[i] = K[j] THEN <<"DRIFT.bc.completion_listed_twice">> ELSE <<>>)
        \o (IF \E c \in FeasibleSubBags(T.x, T.items, T.C) : Len(c) > 0 /\ ~\E j \in 1..Len(K) : DominatesV(K[j], c) THEN <<"DRIFT.bc.completions_do_not_cover_a_feasible_completion">> ELSE <<>>)
DomFails(T) ==
   IF T.out # "ret" THEN <<"DRIFT.bc.is_dominant_failed:" \o T.out>>
   ELSE IF (T.ans = 1) # DominatesV(T.l1, T.l2) THEN <<"DRIFT.bc.is_dominant_differs_from_the_dominance_relation">> ELSE <<>>
Verdict(T) == LET fs == IF T.kind = "comp" THEN CompFails(T) ELSE DomFails(T) IN [j \in 1..Len(fs) |-> [e |-> 1, c |-> fs[j]]]
Init == tid \in 1..Len(Traces) /\ phase = "call"
Judge == /\ phase = "call" /\ phase' = "judged"
         /\ PrintT("@@V " \o ToJson([tid |-> tid, n |-> 1, fails |-> Verdict(Traces[tid])]))
         /\ UNCHANGED tid
Next == Judge
=============================================================================
