------------------------------- MODULE BigNat -------------------------------
(***************************************************************************)
(* Naturals below 2^53 as two limbs <<hi, lo>> in base 2^26 (TLC integers  *)
(* are 32-bit).  Only what the magnitude tier needs: addition of up to 15  *)
(* numbers, comparison, subtraction of a smaller from a larger number.     *)
(***************************************************************************)
EXTENDS Naturals, Integers, Sequences, SequencesExt, Folds, Functions
BASE == 67108864
BNorm(p) == <<p[1] + (p[2] \div BASE), p[2] % BASE>>
BZero == <<0, 0>>
BAdd(a, b) == BNorm(<<a[1] + b[1], a[2] + b[2]>>)
BSum(s) == BNorm(<<FoldSeq(LAMBDA x, acc: x[1] + acc, 0, s), FoldSeq(LAMBDA x, acc: x[2] + acc, 0, s)>>)   \* Len(s) <= 15
BLt(a, b)  == a[1] < b[1] \/ (a[1] = b[1] /\ a[2] < b[2])
BLeq(a, b) == a = b \/ BLt(a, b)
BSub(a, b) == IF a[2] >= b[2] THEN <<a[1] - b[1], a[2] - b[2]>> ELSE <<a[1] - b[1] - 1, a[2] + BASE - b[2]>>   \* a >= b
BMax(s) == CHOOSE x \in {s[i] : i \in DOMAIN s} : \A y \in {s[i] : i \in DOMAIN s} : BLeq(y, x)
BMin(s) == CHOOSE x \in {s[i] : i \in DOMAIN s} : \A y \in {s[i] : i \in DOMAIN s} : BLeq(x, y)
BSortAsc(s) == SortSeq(s, BLeq)
WellFormed(a) == a[1] >= 0 /\ a[2] >= 0 /\ a[2] < BASE
=============================================================================
