------------------------------- MODULE Prt -------------------------------
(***************************************************************************)
(* Common vocabulary for every prtpy specification.                        *)
(*                                                                         *)
(* Items are ids 1..n; `vals` is a sequence giving each id its value; id   *)
(* order is arrival order (list position / dict insertion order).  A bin   *)
(* is a sequence of ids; a bins-array is a sequence of bins together with  *)
(* a sequence of sums.                                                     *)
(***************************************************************************)
EXTENDS Naturals, Integers, Sequences, FiniteSets, TLC, SequencesExt, FiniteSetsExt, Functions, Folds

INF == 1000000000

SumSeq(s)  == FoldSeq(LAMBDA x, acc: x + acc, 0, s)
MaxSeq(s)  == Max({s[i] : i \in DOMAIN s})
MinSeq(s)  == Min({s[i] : i \in DOMAIN s})
SortAsc(s) == SortSeq(s, <=)
SortDsc(s) == SortSeq(s, >=)
SeqRange(s) == {s[i] : i \in DOMAIN s}

\* bag equality of two sequences of integers
SameBag(a, b) == SortAsc(a) = SortAsc(b)

\* concatenation of a sequence of sequences
Flatten(ss) == FoldLeft(LAMBDA acc, b: acc \o b, <<>>, ss)

\* values of the ids in bin b
ValsOf(vals, b) == [t \in 1..Len(b) |-> vals[b[t]]]
BinSum(vals, b) == SumSeq(ValsOf(vals, b))
BinSums(vals, lists) == [j \in 1..Len(lists) |-> BinSum(vals, lists[j])]

\* a bin as a canonical bag of values (sorted sequence); bins-array as bag of bags
BinBag(vals, b) == SortAsc(ValsOf(vals, b))
\* total order on integer sequences (length, then lexicographic) for canonical sorting of bags of bags
RECURSIVE LexLeq(_,_)
LexLeq(a, b) == IF Len(a) # Len(b) THEN Len(a) < Len(b)
                ELSE IF Len(a) = 0 THEN TRUE
                ELSE IF Head(a) # Head(b) THEN Head(a) < Head(b)
                ELSE LexLeq(Tail(a), Tail(b))
BagOfBins(vals, lists) == SortSeq([j \in 1..Len(lists) |-> BinBag(vals, lists[j])], LexLeq)

\* Python's stable sorted(ids, key=value, reverse=True): ties keep arrival order
SortDescIds(vals, ids) == SortSeq(ids, LAMBDA a, b: vals[a] > vals[b] \/ (vals[a] = vals[b] /\ a < b))
IdSeq(n) == [i \in 1..n |-> i]

\* Python's stable sort of a bins-array by ascending sum (sorted(range(k), key=sums))
StableAscIdx(s) == SortSeq([b \in 1..Len(s) |-> b], LAMBDA a, b: s[a] < s[b] \/ (s[a] = s[b] /\ a < b))
SortArr(s, c) == LET idx == StableAscIdx(s)
                 IN [s |-> [b \in 1..Len(s) |-> s[idx[b]]], c |-> [b \in 1..Len(s) |-> c[idx[b]]]]

NonInc(s) == \A j \in 1..Len(s)-1 : s[j] >= s[j+1]
NonDec(s) == \A j \in 1..Len(s)-1 : s[j] <= s[j+1]

FloorDiv(a, b) == a \div b
CeilDiv(a, b)  == (a + b - 1) \div b

\* every id 1..n appears exactly once in the flattened lists
IsPermutationOfIds(flat, n) == Len(flat) = n /\ SeqRange(flat) = 1..n
\* no id appears twice and all are in 1..n
IsInjectionIntoIds(flat, n) == SeqRange(flat) \subseteq 1..n /\ Cardinality(SeqRange(flat)) = Len(flat)

\* lexicographic permutations of 1..k, hoisted in a table by users
RECURSIVE LexPerms(_)
LexPerms(S) == IF S = {} THEN << <<>> >>
               ELSE LET xs == SetToSortSeq(S, <)
                    IN FoldLeft(LAMBDA acc, x: LET sub == LexPerms(S \ {x})
                                               IN acc \o [j \in 1..Len(sub) |-> <<x>> \o sub[j]], <<>>, xs)
=============================================================================
