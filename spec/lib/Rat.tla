------------------------------- MODULE Rat -------------------------------
(***************************************************************************)
(* Exact rationals as pairs <<num, den>> with den > 0, compared by         *)
(* cross-multiplication.  Used for weights, tree windows (t-(k-1)d)/k,     *)
(* multifit capacities and class thresholds, so that no float ever enters  *)
(* a specification.  All products must stay below 2^31 (TLC integers).     *)
(***************************************************************************)
EXTENDS Naturals, Integers

RECURSIVE GCD(_,_)
GCD(a, b) == IF b = 0 THEN a ELSE GCD(b, a % b)
Abs(x) == IF x < 0 THEN 0 - x ELSE x

RNorm(r) == LET g == GCD(Abs(r[1]), r[2]) IN IF g = 0 THEN <<0, 1>> ELSE <<r[1] \div g, r[2] \div g>>
RInt(n)  == <<n, 1>>
RLeq(a, b) == a[1] * b[2] <= b[1] * a[2]
RLt(a, b)  == a[1] * b[2] <  b[1] * a[2]
REq(a, b)  == a[1] * b[2] =  b[1] * a[2]
RNeg(a)    == <<0 - a[1], a[2]>>
RAdd(a, b) == RNorm(<<a[1] * b[2] + b[1] * a[2], a[2] * b[2]>>)
RSub(a, b) == RAdd(a, RNeg(b))
RMulInt(a, n) == RNorm(<<a[1] * n, a[2]>>)
RDivInt(a, n) == RNorm(<<a[1], a[2] * n>>)
RMin(a, b) == IF RLeq(a, b) THEN a ELSE b
RMax(a, b) == IF RLeq(a, b) THEN b ELSE a
\* floor / ceil of a rational with positive denominator (TLA+ \div floors towards -infinity)
RFloor(a) == a[1] \div a[2]
RCeil(a)  == 0 - ((0 - a[1]) \div a[2])
=============================================================================
