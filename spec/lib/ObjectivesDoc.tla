--------------------------- MODULE ObjectivesDoc ---------------------------
(***************************************************************************)
(* The documented quantity of every built-in objective (prtpy/objectives.py*)
(* docstrings and README), written from the documentation, never from the  *)
(* code.  `s` is a sequence of bin sums in ANY order.  A smaller value is  *)
(* a better partition.                                                     *)
(*                                                                         *)
(*   "minsum"    maximize the smallest sum      -> minus the smallest sum  *)
(*   "maxsum"    minimize the largest sum       -> the largest sum         *)
(*   "diff"      minimize largest - smallest    -> largest minus smallest  *)
(*   "ksmallest" maximize the k smallest sums   -> minus their total       *)
(*   "klargest"  minimize the k largest sums    -> their total             *)
(*   "wminsum"   maximize smallest sum/weight   -> minus min s[i]/w[i]     *)
(*                                                  (a rational <<p,q>>)   *)
(* k larger than the number of bins means "all bins".                      *)
(***************************************************************************)
EXTENDS Prt, Rat

Objectives3 == {"diff", "maxsum", "minsum"}
Objectives5 == Objectives3 \cup {"klargest", "ksmallest"}

KSmallestTotal(s, kp) == LET a == SortAsc(s) IN SumSeq(SubSeq(a, 1, Min({kp, Len(a)})))
KLargestTotal(s, kp)  == LET a == SortAsc(s) IN SumSeq(SubSeq(a, Len(a) - Min({kp, Len(a)}) + 1, Len(a)))

\* value to minimise, integer objectives
Value(o, kp, s) ==
   CASE o = "maxsum"    -> MaxSeq(s)
     [] o = "minsum"    -> 0 - MinSeq(s)
     [] o = "diff"      -> MaxSeq(s) - MinSeq(s)
     [] o = "ksmallest" -> 0 - KSmallestTotal(s, kp)
     [] o = "klargest"  -> KLargestTotal(s, kp)

\* weighted objective: minus the smallest of s[i]/w[i], as a normalised rational
WeightedMin(s, w) ==
   LET n == Min({Len(s), Len(w)})       \* python zip() stops at the shorter
       best == CHOOSE i \in 1..n : \A j \in 1..n : RLeq(<<s[i], w[i]>>, <<s[j], w[j]>>)
   IN RNorm(<<s[best], w[best]>>)
WValue(s, w) == RNeg(WeightedMin(s, w))

\* the fast path (sums declared sorted ascending) must agree with the above whenever s is sorted
FastValue(o, kp, s) ==
   CASE o = "maxsum"    -> s[Len(s)]
     [] o = "minsum"    -> 0 - s[1]
     [] o = "diff"      -> s[Len(s)] - s[1]
     [] o = "ksmallest" -> 0 - SumSeq(SubSeq(s, 1, Min({kp, Len(s)})))
     [] o = "klargest"  -> SumSeq(SubSeq(s, Len(s) - Min({kp, Len(s)}) + 1, Len(s)))
=============================================================================
