------------------------------ MODULE Oracles ------------------------------
(***************************************************************************)
(* Ground truth computed from the problem definitions, never from prtpy.   *)
(*                                                                         *)
(*  Opt        optimal value of a partition objective  (set-of-sorted-     *)
(*             sum-vectors fold; exact)                                    *)
(*  OptBrute   the same by brute force over all assignments (cross-check)  *)
(*  MinBins    minimum number of bins of capacity C    (subset DP, exact)  *)
(*  MinBinsAlt the same by the canonical-subset recursion (cross-check)    *)
(*  MaxCover   maximum number of bins covered to C     (subset DP, exact:  *)
(*             lexicographic (covered, open load) dominance is preserved   *)
(*             by adding any item, see DESIGN 5)                           *)
(*  OptBalanced  best 2-way difference under a cardinality-gap bound       *)
(*  BestReach  best objective reachable by distributing a remaining total  *)
(*  SubsetsInWindow, DistinctPairings   enumerator ground truth            *)
(***************************************************************************)
EXTENDS ObjectivesDoc

------------------------------------------------------------------------------
\* Partition optimum.  Reach = set of ascending-sorted sum vectors after placing items i..n.
RECURSIVE Reach(_,_,_,_)
Reach(vals, i, S, k) ==
   IF i > Len(vals) THEN S
   ELSE Reach(vals, i+1, { SortAsc([st EXCEPT ![b] = @ + vals[i]]) : st \in S, b \in 1..k }, k)
FinalSums(vals, k) == Reach(vals, 1, {[b \in 1..k |-> 0]}, k)
OptOver(o, kp, F)  == Min({ Value(o, kp, s) : s \in F })
Opt(o, kp, vals, k) == OptOver(o, kp, FinalSums(vals, k))

\* brute force over all assignments [1..n -> 1..k]   (cross-validation only)
AssignSums(vals, k, f) == [b \in 1..k |-> SumSeq([i \in 1..Len(vals) |-> IF f[i] = b THEN vals[i] ELSE 0])]
OptBrute(o, kp, vals, k) == Min({ Value(o, kp, AssignSums(vals, k, f)) : f \in [1..Len(vals) -> 1..k] })

\* Unsorted reach: bin identity matters (weights).  Set of sum vectors [1..k -> Nat].
RECURSIVE ReachU(_,_,_,_)
ReachU(vals, i, S, k) ==
   IF i > Len(vals) THEN S
   ELSE ReachU(vals, i+1, { [st EXCEPT ![b] = @ + vals[i]] : st \in S, b \in 1..k }, k)
FinalSumsU(vals, k) == ReachU(vals, 1, {[b \in 1..k |-> 0]}, k)

------------------------------------------------------------------------------
\* Bin packing: minimum number of bins of capacity C for all items (values <= C assumed).
\* G[S] = lexicographically least (bins used, load of the open bin) over all orders of S.
SumOfIds(vals, S) == FoldSet(LAMBDA i, acc: vals[i] + acc, 0, S)
\* The table is built level by level (subsets of size j from subsets of size j-1) so that every entry is computed once:
\* TLC evaluates function definitions lazily without memoising, so the direct recursion costs n! instead of n 2^n;
\* TLCEval forces each level into an explicit table.
MinBins(vals, C) ==
  LET N == Len(vals)
      Less(x, y) == x[1] < y[1] \/ (x[1] = y[1] /\ x[2] <= y[2])
      Step(p, v) == IF p[2] + v <= C THEN <<p[1], p[2] + v>> ELSE <<p[1] + 1, v>>
      BestOf(cands) == CHOOSE x \in cands : \A y \in cands : Less(x, y)
      RECURSIVE Lvl(_,_)
      Lvl(j, prev) == IF j > N THEN prev
                      ELSE Lvl(j + 1, TLCEval([S \in kSubset(j, 1..N) |-> BestOf({ Step(prev[S \ {i}], vals[i]) : i \in S })]))
      \* no bin yet: the "open bin" is over-full, so the first item (even a zero) opens one
  IN Lvl(1, [S \in {{}} |-> <<0, C + 1>>])[1..N][1]
MinBinsAlt(vals, C) ==
  LET Ids == 1..Len(vals)
      MB[S \in SUBSET Ids] ==
         IF S = {} THEN 0
         ELSE LET f == Min(S)
                  Cands == { B \in SUBSET (S \ {f}) : SumOfIds(vals, B) + vals[f] <= C }
              IN 1 + Min({ MB[S \ (B \cup {f})] : B \in Cands })
  IN MB[Ids]

\* Bin covering: maximum number of bins each with sum >= C from disjoint sub-collections.
MaxCover(vals, C) ==
  LET N == Len(vals)
      Better(x, y) == x[1] > y[1] \/ (x[1] = y[1] /\ x[2] >= y[2])
      Step(p, v) == IF p[2] + v >= C THEN <<p[1] + 1, 0>> ELSE <<p[1], p[2] + v>>
      BestOf(cands) == CHOOSE x \in cands : \A y \in cands : Better(x, y)
      RECURSIVE Lvl(_,_)
      Lvl(j, prev) == IF j > N THEN prev
                      ELSE Lvl(j + 1, TLCEval([S \in kSubset(j, 1..N) |-> BestOf({ Step(prev[S \ {i}], vals[i]) : i \in S })]))
  IN Lvl(1, [S \in {{}} |-> <<0, 0>>])[1..N][1]
\* cross-check: maximum number of pairwise disjoint covering subsets, canonical recursion
MaxCoverAlt(vals, C) ==
  LET Ids == 1..Len(vals)
      MC[S \in SUBSET Ids] ==
         IF SumOfIds(vals, S) < C THEN 0
         ELSE LET f == Min(S)
              IN Max({ MC[S \ {f}] } \cup
                     { 1 + MC[S \ (B \cup {f})] : B \in { B \in SUBSET (S \ {f}) : SumOfIds(vals, B) + vals[f] >= C } })
  IN MC[Ids]

------------------------------------------------------------------------------
\* Balanced two-way partition: least |sum(S) - sum(rest)| with ||S| - |rest|| <= d.
OptBalanced(vals, d) ==
  LET N == Len(vals)
      tot == SumSeq(vals)
      AbsI(x) == IF x < 0 THEN 0 - x ELSE x
      \* (tot - s) - s rather than tot - 2*s: no intermediate exceeds the total (totals close to 2^31 are used to probe relative tolerances of 1e-9)
  IN Min({ AbsI((tot - SumOfIds(vals, S)) - SumOfIds(vals, S)) : S \in { S \in SUBSET (1..N) : AbsI(N - 2 * Cardinality(S)) <= d } })

------------------------------------------------------------------------------
\* All ways of writing R as an ordered sum of k non-negative integers.
RECURSIVE Compositions(_,_)
Compositions(R, k) == IF k = 1 THEN { <<R>> }
                      ELSE UNION { { <<a>> \o c : c \in Compositions(R - a, k - 1) } : a \in 0..R }
\* best (smallest) objective value reachable from partial sums s by distributing a total of R
BestReach(o, s, R) == Min({ Value(o, 0, [b \in 1..Len(s) |-> s[b] + c[b]]) : c \in Compositions(R, Len(s)) })

------------------------------------------------------------------------------
\* Inclusion-exclusion enumerator: sub-collections (sets of ids) whose total lies in [lb, ub] (rationals).
SubsetsInWindow(vals, lb, ub) ==
  { S \in SUBSET (1..Len(vals)) : RLeq(lb, RInt(SumOfIds(vals, S))) /\ RLeq(RInt(SumOfIds(vals, S)), ub) }

\* Bin-combination enumerator.  A pairing of arrays a1, a2 (k bins each) is a bijection p; its result is the
\* bins-array whose i-th bin is a1[p[i]] joined with a2[i].  Two pairings are the same "way" when the results are
\* equal as bags of bins; the sums-only manager can only distinguish bags of sums.
PairingsBySums(s1, s2, Perms) == { SortAsc([i \in 1..Len(s1) |-> s1[p[i]] + s2[i]]) : p \in Perms }
PairingsByContents(c1, c2, Perms) ==
  { SortSeq([i \in 1..Len(c1) |-> SortAsc(c1[p[i]] \o c2[i])], LexLeq) : p \in Perms }
=============================================================================
