---------------------------- MODULE OutputTypes ----------------------------
(***************************************************************************)
(* The output types of prtpy.out as functions of the full result           *)
(* (PartitionAndSumsTuple: sums s, lists c).  "Choosing a cheaper output   *)
(* type never changes the answer" (C06) means: the value returned for      *)
(* output type t equals Derive(t, s, c).                                   *)
(*                                                                         *)
(* A recorded output x is [t, out, v, l, exact]: v = the numbers it shows  *)
(* (as a sequence), l = the bins it shows (ids), out = "ret" | "raise:..". *)
(***************************************************************************)
EXTENDS Prt

SumTypes == {"Sums", "SortedSums", "LargestSum", "SmallestSum", "ExtremeSums", "Difference", "BinCount"}
ListTypes == {"Partition", "PartitionAndSums", "PartitionAndSumsTuple"}
AllTypes == SumTypes \cup ListTypes
\* extremes of an empty result are undefined: the call must fail rather than invent a number
Undefined(t, s) == Len(s) = 0 /\ t \in {"LargestSum", "SmallestSum", "ExtremeSums", "Difference"}

DeriveNumbers(t, s) ==
   CASE t = "Sums"        -> s
     [] t = "SortedSums"  -> SortAsc(s)
     [] t = "LargestSum"  -> <<MaxSeq(s)>>
     [] t = "SmallestSum" -> <<MinSeq(s)>>
     [] t = "ExtremeSums" -> <<MinSeq(s), MaxSeq(s)>>
     [] t = "Difference"  -> <<MaxSeq(s) - MinSeq(s)>>
     [] t = "BinCount"    -> <<Len(s)>>
     [] t = "PartitionAndSums" -> s
     [] t = "PartitionAndSumsTuple" -> s
     [] OTHER -> <<>>

\* does recorded output x agree with the full result (s, c)?  returns "" or the name of the disagreement
Disagrees(x, s, c) ==
   IF Undefined(x.t, s) THEN (IF x.out = "ret" THEN "number_invented_for_empty_result" ELSE "")
   ELSE IF x.out # "ret" THEN "fails_where_full_output_succeeds:" \o x.out
   ELSE IF ~x.exact THEN "inexact_number"
   ELSE IF x.t # "Partition" /\ x.v # DeriveNumbers(x.t, s) THEN "numbers_differ"
   ELSE IF x.t \in ListTypes /\ x.l # c THEN "bins_differ"
   ELSE ""
=============================================================================
