------------------------------ MODULE Contract ------------------------------
(***************************************************************************)
(* L0: WHAT any call may return.  One operator per property clause; the    *)
(* same operators are INVARIANTs of the L1 machines and the acceptance     *)
(* conditions of the judges that validate recorded executions of prtpy.    *)
(*                                                                         *)
(* A recorded result r is a record with (at least)                         *)
(*    out   "ret" | "none" | "raise:<Type>" | "bad"                        *)
(*    lists sequence of bins, each a sequence of item ids (0 = unknown)    *)
(*    sums  sequence of integers (already scaled; exact = FALSE if the     *)
(*          implementation reported a number that is not such an integer)  *)
(* and vals is the sequence of item values by id.                          *)
(***************************************************************************)
EXTENDS Oracles

Returned(r) == r.out = "ret"
N(vals) == Len(vals)

------------------------------------------------------------------------------
(* C01 *)
IdsValid(vals, r)       == \A j \in 1..Len(r.lists) : \A t \in 1..Len(r.lists[j]) : r.lists[j][t] \in 1..Len(vals)
EveryItemOnce(vals, r)  == IsPermutationOfIds(Flatten(r.lists), Len(vals))
CountIs(r, k)           == Len(r.lists) = k
CountAtMost(r, k)       == Len(r.lists) <= k /\ Len(r.lists) >= 1
IsTruePartition(vals, k, r, fewerAllowed) ==
   /\ Returned(r)
   /\ IF fewerAllowed THEN CountAtMost(r, k) ELSE CountIs(r, k)
   /\ EveryItemOnce(vals, r)

(* C06, first half *)
SumsDescribeBins(vals, r) ==
   /\ Returned(r) /\ r.exact /\ IdsValid(vals, r)
   /\ Len(r.sums) = Len(r.lists)
   /\ \A j \in 1..Len(r.lists) : r.sums[j] = BinSum(vals, r.lists[j])

(* C02 / C12 / C17: value of a returned partition, computed from its bins (never from its reported sums) *)
ValueOfResult(o, kp, vals, r) == Value(o, kp, BinSums(vals, r.lists))

------------------------------------------------------------------------------
(* C03 *)
MissingIds(vals, r) == (1..Len(vals)) \ SeqRange(Flatten(r.lists))
FeasiblePacking(vals, C, r, mayOmitZeros) ==
   /\ Returned(r) /\ IdsValid(vals, r)
   /\ IsInjectionIntoIds(Flatten(r.lists), Len(vals))
   /\ \A i \in MissingIds(vals, r) : mayOmitZeros /\ vals[i] = 0
   /\ \A j \in 1..Len(r.lists) : BinSum(vals, r.lists[j]) <= C
NoEmptyBin(r) == \A j \in 1..Len(r.lists) : Len(r.lists[j]) > 0

(* C09 *)
AnyFitInvariant(vals, C, r) ==
   \A a, b \in 1..Len(r.lists) : (a < b /\ Len(r.lists[b]) > 0) => BinSum(vals, r.lists[a]) + vals[r.lists[b][1]] > C

(* C05 *)
UnusedTotal(vals, r) == SumOfIds(vals, MissingIds(vals, r))
ValidCover(vals, C, r) ==
   /\ Returned(r) /\ IdsValid(vals, r)
   /\ IsInjectionIntoIds(Flatten(r.lists), Len(vals))
   /\ \A j \in 1..Len(r.lists) : BinSum(vals, r.lists[j]) >= C
   /\ UnusedTotal(vals, r) < C

------------------------------------------------------------------------------
(* C08 *)
RoundRobinShape(r) == /\ NonInc(r.sums)
                      /\ \A a, b \in 1..Len(r.lists) : Len(r.lists[a]) - Len(r.lists[b]) <= 1
GapWithinLargestItem(vals, s) == MaxSeq(s) - MinSeq(s) <= MaxSeq(vals)
=============================================================================
